#!/venv/bin/python
"""Regenerates /verif/MANIFEST.json from the table below (run after adding/removing a check)."""
import json
import os

VERIF = os.path.dirname(os.path.dirname(os.path.abspath(__file__)))

CHECKS = {
    "C01": ("convergence-rate monitor against closed-form solutions on the same Brownian path",
            "measured strong-order slopes and final errors of real sdeint runs for every solver x noise cell against "
            "exact solutions evaluated on the very path the solver consumed (also with off-grid intermediate outputs "
            "requested); adaptive error shrinks with the tolerances through sdeint and the sdeint_adjoint forward pass",
            "closed forms in vt/closed_forms.py; PyTorch; fixed entropies; slopes over 5-6 dyadic step sizes"),
    "C02": ("one-step residual monitor against independently built stochastic Taylor expansions",
            "real solver.step driven by a stub Brownian motion with prescribed increments; residual slopes in h against "
            "Ito/Stratonovich-Taylor references built from dense autograd Jacobians; exact equality for Euler/Milstein; "
            "the measured step is the first or the second step of the solver object",
            "torch.autograd.functional jacobians; Gauss-Hermite quadrature; exploration over generated SDEs, no proof"),
    "C03": ("history + reference-model monitor (Chen relations) on real Brownian objects",
            "additivity, Chen's relation for U and A (against the captured tree pieces), zero-length and antisymmetry "
            "checked online during generated hostile histories over all wrappers/configurations; the same relations observed "
            "passively (vt/ridealong.py) on the Brownian histories of the repository's own test-suite",
            "float tolerances per dtype; on-grid times when tol>0"),
    "C04": ("labelled-noise exact linear-map monitor + Levy-area decomposition + sampling layer",
            "exact covariance M M^T of W/H against Brownian covariance integrals (no sampling error), bridge law with "
            "supplied W/H, conditional Levy-area variance from recorded draws, element-wise noise reconstruction, "
            "and z-tests on real draws",
            "torch.randn i.i.d.; single-node Levy areas"),
    "C05": ("shadow-dictionary bit-identity monitor at the API boundary",
            "every repeated (interval, flags) query compared with torch.equal across evictions, refinements and "
            "recomputation, with the process default dtype flipped in between; backward-pass queries of sdeint_adjoint "
            "matched to forward ones, a second backward pass bit-identical; caller-owned tensors unmodified; a passive "
            "shadow monitor (vt/ridealong.py) rides along the repository's own test-suite",
            "identical float end points"),
    "C06": ("twin-object differential monitor",
            "same-seed/same-history twins and, in dyadic mode, twins with different histories probed on the same "
            "intervals (on and off the tolerance grid, after near-duplicate queries) must agree bit for bit, one twin "
            "under default dtype float32; different entropies must differ",
            "dyadic mode for the history-independence clause"),
    "C07": ("invariant hooks: stack-depth probe, per-call operation budget, cache bound, exception monitor under stress",
            "tens of thousands of solver-shaped queries, all cache sizes, slivers, sub-tolerance queries and sdeint "
            "with its default Brownian motion, with depth/ops/cache monitors armed; the cache-bound post-condition also rides "
            "along the repository's own test-suite (vt/ridealong.py)",
            "logical-step bound stands in for non-termination; depth compared at n and 8n"),
    "C08": ("finite-difference oracle on real backprop with frozen (injected) adaptive schedules",
            "directional central differences of a random functional of all outputs vs autograd for every solver x noise "
            "cell, incl. the logqp output and solves resumed from a returned extra solver state; adaptive runs replay the "
            "recorded accept/reject schedule; error control observed under no_grad",
            "float64 central differences, self-validated at eps = 1e-5, 1e-6, 1e-7"),
    "C09": ("differential monitor sdeint vs sdeint_adjoint + gradient-convergence monitor",
            "forward outputs bit-equal to sdeint (fixed and adaptive steps, list times, adjoint_adaptive requested); adjoint "
            "gradients converge to closed-form / fine-grid backprop gradients with measured slopes (also with logqp and "
            "with adjoint_adaptive); only requested tensors receive gradients (subsets, frozen, empty, renamed)",
            "closed-form gradients; dt/16 backprop reference"),
    "C10": ("differential monitor adjoint_reversible_heun vs backprop, classified by observed step grids",
            "gradients compared to 1e-9 relative on exact grids (class A), 1e-6 on decimal grids (class B); sliver "
            "mismatches (class C) are violations; time axes up to |t|/dt = 6.7e7, renamed methods, resumed solves",
            "float64; Brownian increments over 1-ulp shifted intervals differ by sqrt(ulp) on decimal grids"),
    "C11": ("independent dense-Jacobian reference model for the adjoint vector fields",
            "AdjointSDE.f / g_prod / f_and_g_prod / g_prod_and_gdg_prod compared with a dense augmented-system "
            "construction for all 2x4 type combinations; graph/no-graph discipline observed",
            "torch.autograd.functional.jacobian"),
    "C12": ("step-log monitor against a reference model of the dt grid and linear interpolation",
            "every step logged via SolverProbe; grid, interpolation and output-time invariance asserted for sdeint and "
            "the sdeint_adjoint forward pass; list/tuple/tensor times, default dtype float32, mixed precision, "
            "non-contiguous initial states, inputs unmodified; the grid/interpolation model also checks every fixed-step "
            "integrate call (forward and adjoint-backward) made by the repository's own test-suite (vt/ridealong.py)",
            "grid model in ts dtype"),
    "C13": ("checkpoint-restart differential monitor",
            "one-shot vs chunked integration at every cut position / random multi-cuts on the nominal dt grid, torch.equal "
            "on state and extra; sdeint and sdeint_adjoint forward pass; float32 Brownian motion with float64 state",
            "same-entropy Brownian objects"),
    "C14": ("event-trace monitor of the adaptive controller with natural and injected error schedules",
            "trials parsed from Brownian queries and controller calls; tiling, dt_min, accept/reject rule, error norm "
            "recomputation, termination bound; adversarial error sequences injected at compute_error; sdeint, the forward "
            "pass of sdeint_adjoint and every reverse-time solve of an adjoint_adaptive backward pass; mixed time/state "
            "dtypes, tensor dt/dt_min; the same trace model rides along every adaptive solve of the repository's own "
            "test-suite (vt/ridealong.py)",
            "dt >= dt_min; logical trial bound"),
    "C15": ("algebraic round-trip monitor for reversible Heun",
            "step-level inverse identity and trajectory-level reconstruction through ReverseBrownian (grid and off-grid "
            "outputs, list times under default float32, reverse leg through sdeint or sdeint_adjoint, far time axes)",
            "stable range n*dt; decimal-grid sqrt(ulp) effect"),
    "C16": ("interface-variant differential monitor + dense reference for derived operators",
            "ten interface variants (incl. renamed methods competing with decoys under the standard names) x all cells: "
            "bit-identical or explicit error; prod / g dg v / Levy-Jacobian terms vs dense-Jacobian definitions",
            "torch.equal across variants"),
    "C17": ("differential monitor special noise type vs general embedding",
            "diagonal/scalar/additive SDEs vs the same SDE declared general, same Brownian path, all common solvers",
            "1e-12 relative"),
    "C18": ("logqp monitor: shape/sign/additivity, undisturbed state, exact and hand-augmented references",
            "logqp output vs closed form 1/2|c|^2 dt and vs a hand-augmented SDE integrated by the same solver; two "
            "output times, batch 1, off-grid outputs, renamed prior drift, signed / batch-varying diffusion",
            "lstsq pseudo-inverse reference"),
    "C19": ("exhaustive enumeration of the configuration product with call-count monitors",
            "every sde_type x noise_type x method x levy x adaptive x logqp combination against a table written from the "
            "documentation; rejected ones must raise ValueError with zero Brownian queries and zero solver steps; 35 "
            "malformed-argument classes built on a base call that is checked to be accepted",
            "oracle table from DOCUMENTATION.md"),
    "C20": ("row-perturbation / permutation differential monitor",
            "perturbing other rows leaves row i bit-identical (also rows of magnitude 1e-4..1e12, with logqp, through the "
            "adjoint forward pass); permuting rows permutes outputs; Brownian elements driven by their own noise "
            "element, no duplicated elements in a sample",
            "element-wise SDEs bit-exact; reductions 1e-13"),
}

BUILT = ["C03", "C04", "C05", "C06", "C07"]


def main():
    built = [c for c in sorted(CHECKS) if os.path.exists(os.path.join(VERIF, "vt", "checks", c.lower() + ".py"))]
    checks = []
    for pid in built:
        tech, text, note = CHECKS[pid]
        checks.append({
            "property_id": pid,
            "quick_cmd": f"/venv/bin/python vt/run.py {pid} quick",
            "thorough_cmd": f"/venv/bin/python vt/run.py {pid} thorough",
            "evidence_file": f"/verif/evidence/{pid}.json",
            "replay_cmd_template": f"/venv/bin/python vt/run.py {pid} --replay {{path}}",
            "engine": "vt",
            "level_claimed": {"category": "exploration", "text": text, "design_ref": f"DESIGN.md section 3, {pid}"},
            "level_note": note,
            "technique": "runtime monitoring: " + tech,
        })
    na = [{"property_id": pid, "reason": "check not built yet in this round (planned, see DESIGN.md section 3)"}
          for pid in sorted(CHECKS) if pid not in built]
    man = {
        "version": 1,
        "setup_cmd": "/venv/bin/python vt/selfcheck.py",
        "hooks": {
            "guard": "TORCHSDE_VERIF",
            "enable": "none needed: all observation points are reached by wrapping module attributes / class methods "
                      "from the harness (vt/probes.py) or by passing proxy Brownian objects through the public API; "
                      "the guard name is reserved but /repo contains no guarded code",
            "baseline_off_cmd": "cd /repo && OMP_NUM_THREADS=1 MKL_NUM_THREADS=1 /venv/bin/python -m pytest -ra -q "
                                "-p no:cacheprovider --timeout=900 -n 16 tests",
            "source_commits": [],
            "add_only": True,
        },
        "engines": [{"name": "vt", "path": "/verif/vt", "serves_properties": built,
                     "kind_free_text": "Python runtime-monitoring harness: probes wrap the real torchsde functions, "
                                       "generated workloads, reference-model oracles, sharded over 16 processes"}],
        "checks": checks,
        "not_applicable": na,
        "notes": "Exit codes: 0 held on everything observed, 1 violation (VIOLATION line + replay file), 2 inconclusive "
                 "(a deciding monitor was never reached or a watchdog fired). known_findings.json lists repaired "
                 "defects (status fixed, suppress nothing) and any open finding (status known).",
    }
    with open(os.path.join(VERIF, "MANIFEST.json"), "w") as f:
        json.dump(man, f, indent=1)
    print("MANIFEST.json:", len(checks), "checks,", len(na), "not applicable")


if __name__ == "__main__":
    main()
