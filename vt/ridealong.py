"""pytest plugin: property monitors that ride along the repository's OWN test-suite.

    PYTHONPATH=/verif VERIF_REPO=<repo> VT_RIDE=C05 VT_RIDE_OUT=<file> python -m pytest -p vt.ridealong <node ids>

The repository's tests are a workload the generators of vt/checks know nothing about (its problem classes, its Brownian
histories, its adaptive runs). The monitors below are PASSIVE: they observe calls at the API boundary and never make a
query of their own, so a test sees exactly the values it would see without them. What they decide:

  C05  per Brownian object: a query (ta, tb, flags) seen before returns bit-for-bit the same tensors
  C03  per BrownianInterval: whenever the history happens to contain (s,u), (u,t) and (s,t): W additive, U obeys Chen's
       relation; a zero-length query returns zeros; a returned Levy area is antisymmetric
  C07  the bounded cache never holds more than max_size entries (post-condition of every insertion)
  C12  every fixed-step solver.integrate call (forward solves and the reverse-time solves of adjoint backward passes):
       the logged steps follow the dt-grid model, ys[0] is y0, outputs are grid states / linear interpolants
  C14  every adaptive solver.integrate call: the trace model of vt/checks/c14.py (trial = full + two halves, accept rule,
       error norm, tiling, dt_min)

Counters say how often each oracle actually ran; the caller treats zero as inconclusive. The monitors are only as good
as the workload: this is extra reach, not a replacement for the generated workloads.
"""
import hashlib
import json
import os
import sys
import traceback

from vt import env  # noqa: F401  (imports torchsde from $VERIF_REPO; float64 default like the tests themselves)
from vt import probes

import torch
import torchsde  # noqa: F401
from torchsde._brownian import brownian_interval as bi
from torchsde._brownian import derived

MON = set(filter(None, os.environ.get("VT_RIDE", "C03,C05,C07,C12,C14").split(",")))
OUT = os.environ.get("VT_RIDE_OUT")

S = {"counters": {}, "violations": [], "errors": [], "max": {}, "tests": 0, "current": None}


def _c(name, n=1):
    S["counters"][name] = S["counters"].get(name, 0) + n


def _viol(mech, detail):
    _c("violations_seen")
    if len(S["violations"]) < 40:
        S["violations"].append({"mechanism": mech, "detail": f"{detail} [during {S['current']}]"})


def _guard(fn):
    """A failing monitor must never change what the test sees: record and carry on."""
    def run(*a, **k):
        try:
            fn(*a, **k)
        except Exception as e:  # noqa
            if len(S["errors"]) < 10:
                S["errors"].append(f"{type(e).__name__}: {e} :: " + traceback.format_exc()[-1200:])
    return run


# ---------------------------------------------------------------------------------------------- Brownian monitors
_STATE = {}  # id(obj) -> (obj, state): the strong reference keeps ids unique for the session
_MAX_OBJECTS = 4000


def _state(obj):
    st = _STATE.get(id(obj))
    if st is None:
        if len(_STATE) >= _MAX_OBJECTS:
            _STATE.pop(next(iter(_STATE)))
        st = (obj, {"shadow": {}, "W": {}, "ends": {}})
        _STATE[id(obj)] = st
    return st[1]


def _digest(x):
    return hashlib.blake2b(x.detach().contiguous().cpu().numpy().tobytes(), digest_size=12).digest()


def _tup(out):
    return (out,) if torch.is_tensor(out) else tuple(out)


def _tol_for(x):
    return 5e-4 if x.dtype == torch.float32 else 1e-10


def _close(x, y, extra=0.0):
    t = _tol_for(x)
    return bool(((x - y).abs() <= t * (1 + y.abs()) + extra).all())


@_guard
def _observe(kind, obj, ta, tb, return_U, return_A, out):
    st = _state(obj)
    outs = _tup(out)
    key = (float(ta), None if tb is None else float(tb), bool(return_U), bool(return_A))
    if "C05" in MON:
        dg = tuple(None if x is None else _digest(x) for x in outs)
        prev = st["shadow"].get(key)
        if prev is None:
            if len(st["shadow"]) < 50000:
                st["shadow"][key] = dg
        else:
            _c("c05_repeats")
            _c("c05_repeats_" + kind)
            if prev != dg:
                _viol(f"ride:repeat_differs:{kind}", f"query {key} returned other bits than the first time")
    if "C03" in MON and kind == "interval" and tb is not None:
        a, b = float(ta), float(tb)
        if not (obj._start <= a <= b <= obj._end):
            return
        W = outs[0]
        U = outs[1] if return_U else None
        A = outs[-1] if return_A else None
        if a == b:
            _c("c03_zero_length")
            if any(x is not None and bool((x != 0).any()) for x in outs):
                _viol("ride:zero_length_query_not_zero", f"({a},{b})")
            return
        if A is not None:
            _c("c03_antisymmetry")
            if A.dim() >= 2 and not _close(A, -A.transpose(-1, -2)):
                _viol("ride:A_not_antisymmetric", f"({a},{b})")
        store, ends = st["W"], st["ends"]
        if W.numel() > 200000:
            return
        if (a, b) not in store and len(store) >= 600:
            return
        old = store.get((a, b))
        if old is None or (old[1] is None and U is not None):
            store[(a, b)] = (W.detach().clone(), None if U is None else U.detach().clone())
        ends.setdefault(b, set()).add(a)
        tol = float(getattr(obj, "_tol", 0.0) or 0.0)

        def chk(s, u, t):
            x, y, z = store.get((s, u)), store.get((u, t)), store.get((s, t))
            if x is None or y is None or z is None:
                return
            _c("c03_additivity_triples")
            if not _close(z[0], x[0] + y[0]):
                _viol("ride:W_additivity", f"W({s},{t}) != W({s},{u}) + W({u},{t}), max diff "
                                           f"{float((z[0] - x[0] - y[0]).abs().max()):.3e}")
            if x[1] is not None and y[1] is not None and z[1] is not None:
                _c("c03_chen_U_triples")
                want = x[1] + y[1] + (t - u) * x[0]
                if not _close(z[1], want, extra=2 * tol * float(x[0].abs().max())):
                    _viol("ride:U_chen", f"U({s},{t}) vs pieces at {u}: max diff {float((z[1] - want).abs().max()):.3e}")

        starts_a = [k[1] for k in store if k[0] == a and k[1] != b]
        for u in starts_a:  # (a,u) + (u,b) = (a,b)   and   (a,b) + (b,u) = (a,u)
            if u < b:
                chk(a, u, b)
            else:
                chk(a, b, u)
        for s in list(ends.get(a, ())):  # (s,a) + (a,b) = (s,b)
            chk(s, a, b)


def _wrap_brownian(cls, kind):
    orig = cls.__call__

    def call(self_, ta, tb=None, return_U=False, return_A=False):
        out = orig(self_, ta, tb, return_U=return_U, return_A=return_A)
        _c("brownian_calls_" + kind)
        _observe(kind, self_, ta, tb, return_U, return_A, out)
        return out

    cls.__call__ = call


def _wrap_cache():
    o_set = bi._LRUDict.__setitem__

    def setitem(self_, key, value):
        o_set(self_, key, value)
        _c("c07_cache_insertions")
        n = len(self_)
        S["max"]["c07_cache_len"] = max(S["max"].get("c07_cache_len", 0), n)
        if n > self_._max_size:
            _viol("ride:cache_overflow", f"{n} entries, max_size {self_._max_size}")

    bi._LRUDict.__setitem__ = setitem


# ---------------------------------------------------------------------------------------------- solver monitors
def _as_t(x):
    return torch.as_tensor(x)


@_guard
def _check_fixed(solver, steps, y0, ts, ys):
    """The dt-grid model of C12 for ONE fixed-step integrate call (same wording as vt/checks/c12.py)."""
    _c("c12_integrate_calls")
    dt = solver.dt
    ctx = f"{type(solver).__name__} dt={float(dt)!r} ts=[{float(ts[0])!r}..{float(ts[-1])!r}] ({len(ts)} outputs)"
    if not steps:
        if len(ts) > 1:
            _viol("ride:grid_model_mismatch", f"no steps logged {ctx}")
        return
    _c("c12_steps", len(steps))
    bad = None
    for i, s in enumerate(steps):
        prev = steps[i - 1]["t1_raw"] if i else ts[0]
        if not (_as_t(s["t0_raw"]) == _as_t(prev)):
            bad = f"step {i} starts at {s['t0']!r}, previous ended at {float(prev)!r}"
            break
        if i < len(steps) - 1:
            if not (_as_t(s["t1_raw"]) == _as_t(s["t0_raw"]) + dt):
                bad = f"step {i}: t1={s['t1']!r} != t0+dt={float(_as_t(s['t0_raw']) + dt)!r}"
                break
        else:
            eps32 = 1.2e-7 * max(1.0, abs(s["t1"])) if ts.dtype == torch.float32 else 0.0
            if not (_as_t(s["t1_raw"]) == ts[-1]):
                bad = f"last step ends at {s['t1']!r}, ts[-1]={float(ts[-1])!r}"
            elif not (0 < s["t1"] - s["t0"] <= float(dt) * (1 + 1e-6) + 1e-12 * abs(s["t1"]) + 4 * eps32):
                bad = f"last step length {s['t1'] - s['t0']!r} > dt"
    if bad:
        _viol("ride:grid_model_mismatch", f"{bad} {ctx}")
        return
    if not torch.is_tensor(ys) or ys.shape[0] != len(ts):
        _viol("ride:shape_or_dtype", f"{getattr(ys, 'shape', None)} {ctx}")
        return
    if not torch.equal(ys[0], y0):
        _viol("ride:ys0_not_y0", ctx)
    tol = 2e-5 if (ys.dtype == torch.float32 or ts.dtype == torch.float32) else 1e-13
    k = 0
    for j in range(1, len(ts)):
        t = ts[j]
        while k < len(steps) and not (_as_t(steps[k]["t1_raw"]) >= t):
            k += 1
        if k == len(steps):
            _viol("ride:output_beyond_last_step", ctx)
            return
        s = steps[k]
        if _as_t(s["t1_raw"]) == t:
            _c("c12_outputs_on_grid")
            if not torch.equal(ys[j], s["y1"]):
                _viol("ride:grid_output_not_grid_state", f"output {j}: max diff "
                                                         f"{float((ys[j] - s['y1']).abs().max()):.3e} {ctx}")
        else:
            _c("c12_outputs_inside_step")
            ta, tb, tt = float(s["t0_raw"]), float(s["t1_raw"]), float(t)
            w = (tt - ta) / (tb - ta)
            ya, yb = s["y0"].detach().double(), s["y1"].detach().double()
            want = ya + w * (yb - ya)
            e = float(((ys[j].detach().double() - want).abs() / (1 + want.abs())).max())
            S["max"]["c12_interp_err"] = max(S["max"].get("c12_interp_err", 0.0), e if tol < 1e-6 else 0.0)
            if not e <= tol:
                _viol("ride:interpolation_mismatch", f"output {j}: err {e:.3e} w={w:.4f} {ctx}")


@_guard
def _check_adaptive(solver, steps, errors, updates, y0, ts, ys):
    from vt.checks import c14
    _c("c14_integrate_calls")
    viol, cnt, mx = [], {}, {}
    dtype = y0.dtype
    scale = max(1.0, abs(float(ts[0])), abs(float(ts[-1])))
    ctx = f"{type(solver).__name__} dt={float(solver.dt)!r} dt_min={float(solver.dt_min)!r} rtol={solver.rtol} atol={solver.atol}"
    if float(solver.dt) < float(solver.dt_min):
        _c("c14_skipped_first_step_below_dt_min")  # the user-chosen first trial is not a controller proposal
        return
    acc = c14.check_trace(steps, errors, updates, float(ts[0]), float(ts[-1]), float(solver.dt), float(solver.dt_min),
                          solver.rtol, solver.atol, dtype, ctx, viol, cnt, mx, scale, tdtype=ts.dtype)
    for k_, v_ in cnt.items():
        _c("c14_" + k_, v_)
    for k_, v_ in mx.items():
        S["max"]["c14_" + k_] = max(S["max"].get("c14_" + k_, 0.0), v_)
    for v in viol:
        _viol("ride:" + v["mechanism"], v["detail"])
    if acc and torch.is_tensor(ys) and ys.shape[0] == len(ts):
        # an output at the end of an accepted step is the two-half-step value of that step
        ends = {b: y1 for (_, b, _, y1) in acc}
        for j in range(1, len(ts)):
            y1 = ends.get(float(ts[j]))
            if y1 is not None:
                _c("c14_outputs_at_accepted_ends")
                if not torch.equal(ys[j], y1):
                    _viol("ride:returned_value_is_not_the_two_half_step_value", f"output {j} {ctx}")


class RideProbe(probes.SolverProbe):
    def _instrument(self, solver):
        solver = super()._instrument(solver)
        inner = solver.integrate
        probe = self

        def integrate(y0, ts, extra0):
            n_s, n_e, n_u = len(probe.steps), len(probe.errors), len(probe.updates)
            out = inner(y0, ts, extra0)
            steps, errors, updates = probe.steps[n_s:], probe.errors[n_e:], probe.updates[n_u:]
            ys = out[0]
            if getattr(solver, "adaptive", False):
                if "C14" in MON:
                    _check_adaptive(solver, steps, errors, updates, y0, ts, ys)
            elif "C12" in MON:
                _check_fixed(solver, steps, y0, ts, ys)
            del probe.steps[n_s:], probe.errors[n_e:], probe.updates[n_u:]
            del probe.integrate_calls[:]
            if len(probe.solvers) > 64:
                del probe.solvers[:-8]
            return out

        solver.integrate = integrate
        return solver


_CM = []


def install():
    if MON & {"C03", "C05"}:
        _wrap_brownian(bi.BrownianInterval, "interval")
        if "C05" in MON:
            _wrap_brownian(derived.BrownianPath, "path")
            _wrap_brownian(derived.BrownianTree, "tree")
            _wrap_brownian(derived.ReverseBrownian, "reverse")
    if "C07" in MON:
        _wrap_cache()
    if MON & {"C12", "C14"}:
        cm = RideProbe(keep_states=True).installed()
        cm.__enter__()
        _CM.append(cm)


def dump(exitstatus=None):
    if OUT:
        with open(OUT, "w") as f:
            json.dump({"counters": S["counters"], "violations": S["violations"], "errors": S["errors"],
                       "max": S["max"], "tests": S["tests"], "exitstatus": exitstatus,
                       "torchsde_file": env.TORCHSDE_FILE, "monitors": sorted(MON)}, f)


# ---------------------------------------------------------------------------------------------- pytest hooks
def pytest_configure(config):
    install()


def pytest_runtest_setup(item):
    S["current"] = item.nodeid
    S["tests"] += 1


def pytest_sessionfinish(session, exitstatus):
    dump(int(exitstatus))
