"""Environment: import the *real* torchsde from $VERIF_REPO (default /repo), never a copy.

Putting the repository first on sys.path beats the editable-install finder, so a scratch
worktree (used only by the mutant self-test) can be targeted with VERIF_REPO=<dir>.
"""
import os
import sys

REPO = os.environ.get("VERIF_REPO", "/repo")
VERIF = os.path.dirname(os.path.dirname(os.path.abspath(__file__)))
sys.dont_write_bytecode = True
if REPO not in sys.path[:1]:
    sys.path.insert(0, REPO)

os.environ.setdefault("OMP_NUM_THREADS", "1")
os.environ.setdefault("MKL_NUM_THREADS", "1")

import warnings  # noqa: E402

import torch  # noqa: E402

torch.set_num_threads(1)
torch.set_default_dtype(torch.float64)

import torchsde  # noqa: E402

_real = os.path.realpath(torchsde.__file__)
assert _real.startswith(os.path.realpath(REPO) + os.sep), (
    f"torchsde imported from {_real}, expected under {REPO}")

TORCHSDE_FILE = _real


def seed():
    return int(os.environ.get("VERIF_SEED", "0"))


def quiet():
    warnings.simplefilter("ignore")


import contextlib  # noqa: E402


@contextlib.contextmanager
def default_dtype(dtype):
    """Run a block under another PyTorch default dtype (the harness default is float64, which is also what the
    repository's own tests set at import; users normally run under float32 with explicitly typed float64 data)."""
    old = torch.get_default_dtype()
    torch.set_default_dtype(dtype)
    try:
        yield
    finally:
        torch.set_default_dtype(old)
