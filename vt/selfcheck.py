#!/venv/bin/python
"""setup_cmd: nothing to build (pure Python on the repository's own interpreter); verify the tool chain."""
import json
import os
import sys

sys.path.insert(0, os.path.dirname(os.path.dirname(os.path.abspath(__file__))))
from vt import env  # noqa: E402
import numpy, scipy, torch, trampoline  # noqa: E401,E402,F401

print("torchsde from", env.TORCHSDE_FILE, "torch", torch.__version__)
man = json.load(open(os.path.join(env.VERIF, "MANIFEST.json")))
for c in man["checks"]:
    __import__("vt.checks." + c["property_id"].lower())
print("ok:", len(man["checks"]), "checks importable")
