"""SDE generators used by the solver-side checks.

NeuralSDE        random smooth, time-dependent SDE with parameters in drift and diffusion, per noise type
                 (diagonal diffusion is element-wise, additive diffusion depends on t only).
GeneralEmbedding the same SDE declared with `general` noise (C17).
closed-form families live in vt/closed_forms.py.
"""
import math

import torch
from torch import nn

from . import env  # noqa: F401

NOISE_TYPES = ("diagonal", "scalar", "additive", "general")

ITO_METHODS = [("euler", None), ("milstein", None), ("milstein", {"grad_free": True}), ("srk", None)]
STRAT_METHODS = [("euler_heun", None), ("heun", None), ("midpoint", None), ("milstein", None),
                 ("milstein", {"grad_free": True}), ("reversible_heun", None), ("log_ode", None)]


def accepted(sde_type, method, noise_type):
    if method in ("milstein", "srk") and noise_type == "general":
        return False
    if sde_type == "ito":
        return method in ("euler", "milstein", "srk")
    return method in ("euler_heun", "heun", "midpoint", "milstein", "reversible_heun", "log_ode")


def matrix():
    """All accepted (sde_type, method, options, noise_type) cells (39 of them)."""
    cells = []
    for sde_type, ms in (("ito", ITO_METHODS), ("stratonovich", STRAT_METHODS)):
        for method, options in ms:
            for nt in NOISE_TYPES:
                if accepted(sde_type, method, nt):
                    cells.append({"sde_type": sde_type, "method": method, "options": options, "noise_type": nt})
    return cells


def cell_name(c):
    gf = "+gf" if c.get("options") else ""
    return f"{c['sde_type'][:5]}-{c['method']}{gf}-{c['noise_type']}"


def levy_for(method):
    return {"srk": "space-time", "log_ode": "foster"}.get(method, "none")


def noise_dim(noise_type, d, m):
    return d if noise_type == "diagonal" else (1 if noise_type == "scalar" else m)


class NeuralSDE(nn.Module):
    def __init__(self, d, m, noise_type, sde_type, seed=0, gscale=1.0, rowwise=True, batch_varying=False, signed=False):
        """batch_varying: additive diffusion differs between batch rows (it still does not depend on the state);
        signed: element-wise (diagonal) diffusion with components of either sign."""
        super().__init__()
        self.batch_varying, self.signed = batch_varying, signed
        self.noise_type, self.sde_type = noise_type, sde_type
        self.d = d
        self.m = noise_dim(noise_type, d, m)
        m = self.m
        g = torch.Generator().manual_seed(int(seed))
        rn = lambda *s: torch.randn(*s, generator=g, dtype=torch.float64)  # noqa: E731
        self.A = nn.Parameter(rn(d, d) * 0.5)
        self.b = nn.Parameter(rn(d) * 0.3)
        self.w = nn.Parameter(rn(d))
        self.unused = nn.Parameter(rn(2))  # a parameter the SDE never touches
        self.gscale = gscale
        if noise_type == "diagonal":
            self.s = nn.Parameter(rn(d).abs() * 0.3 + 0.2)
            self.c = nn.Parameter(rn(d) * 0.8)
            self.e = nn.Parameter(rn(d) * 0.5)
        elif noise_type == "additive":
            self.G0 = nn.Parameter(rn(d, m) * 0.4)
            self.G1 = nn.Parameter(rn(d, m) * 0.3)
        else:
            self.G = nn.Parameter(rn(d, d * m) * 0.5)
            self.g0 = nn.Parameter(rn(d, m) * 0.3)
        self.hA = nn.Parameter(rn(d) * 0.3)

    def f(self, t, y):
        t = torch.as_tensor(t, dtype=y.dtype)
        return torch.tanh(y @ self.A.T.to(y.dtype) + self.b.to(y.dtype)) * (1 + 0.3 * torch.sin(self.w.to(y.dtype) * t)) \
            - 0.2 * y

    def g(self, t, y):
        t = torch.as_tensor(t, dtype=y.dtype)
        dt_ = y.dtype
        if self.noise_type == "diagonal":
            out = self.gscale * self.s.to(dt_) * (1 + 0.5 * torch.sin(self.c.to(dt_) * y + self.e.to(dt_) * t))
            if self.signed:
                out = out * (1.0 - 2.0 * (torch.arange(self.d) % 2).to(dt_))  # +, -, +, ...
            return out
        if self.noise_type == "additive":
            G = self.G0.to(dt_) + self.G1.to(dt_) * torch.sin(t)
            out = self.gscale * G.unsqueeze(0).expand(y.size(0), -1, -1)
            if self.batch_varying:
                out = out * (1.0 + 0.25 * torch.arange(y.size(0), dtype=dt_)).reshape(-1, 1, 1)
            return out
        out = torch.tanh(y @ self.G.to(dt_)).reshape(y.size(0), self.d, self.m) * 0.5 + self.g0.to(dt_) * torch.cos(t)
        return self.gscale * out

    def h(self, t, y):
        t = torch.as_tensor(t, dtype=y.dtype)
        return -0.5 * y + self.hA.to(y.dtype) * torch.sin(t)


class GeneralEmbedding(nn.Module):
    """The same SDE as `base`, declared with general noise (diagonal -> diag_embed)."""

    def __init__(self, base):
        super().__init__()
        self.base = base
        self.noise_type = "general"
        self.sde_type = base.sde_type

    def f(self, t, y):
        return self.base.f(t, y)

    def g(self, t, y):
        g = self.base.g(t, y)
        if self.base.noise_type == "diagonal":
            return torch.diag_embed(g)
        return g

    def h(self, t, y):
        return self.base.h(t, y)


class Conditioned(nn.Module):
    """`base` with a well-conditioned diffusion (matrix noise types: + 2*eye(d, m)); used where the pseudo-inverse of g
    enters a differentiated quantity (logqp), so that finite differences of it are meaningful."""

    def __init__(self, base):
        super().__init__()
        self.base = base
        self.noise_type, self.sde_type, self.m, self.d = base.noise_type, base.sde_type, base.m, base.d

    def f(self, t, y):
        return self.base.f(t, y)

    def g(self, t, y):
        g = self.base.g(t, y)
        if self.noise_type == "diagonal":
            return g
        return g + 2.0 * torch.eye(g.size(1), g.size(2), dtype=g.dtype)

    def h(self, t, y):
        return self.base.h(t, y)


class Renamed(nn.Module):
    """`base` (an nn.Module with parameters) exposing drift / diffusion (/ prior drift) as mu / sigma (/ prior) only:
    to be used with names={'drift': 'mu', 'diffusion': 'sigma', 'prior_drift': 'prior'}."""
    NAMES = {"drift": "mu", "diffusion": "sigma", "prior_drift": "prior"}

    def __init__(self, base):
        super().__init__()
        self.base = base
        self.noise_type, self.sde_type, self.m = base.noise_type, base.sde_type, base.m

    def mu(self, t, y):
        return self.base.f(t, y)

    def sigma(self, t, y):
        return self.base.g(t, y)

    def prior(self, t, y):
        return self.base.h(t, y)


class TimeSwitched(nn.Module):
    """Drift and diffusion come from `a` before t_switch and from `b` afterwards (plain Python control flow on the time):
    which parameters take part in the computation depends on when the SDE is evaluated."""

    def __init__(self, a, b, t_switch):
        super().__init__()
        self.a, self.b, self.t_switch = a, b, float(t_switch)
        self.noise_type, self.sde_type, self.m, self.d = a.noise_type, a.sde_type, a.m, a.d

    def _pick(self, t):
        return self.a if float(t) < self.t_switch else self.b

    def f(self, t, y):
        return self._pick(t).f(t, y)

    def g(self, t, y):
        return self._pick(t).g(t, y)


class Plain:
    """An SDE object that is not an nn.Module (f and g given as callables)."""

    def __init__(self, f, g, noise_type, sde_type, h=None):
        self.f, self.g = f, g
        self.noise_type, self.sde_type = noise_type, sde_type
        if h is not None:
            self.h = h


def bm_for(sde, B, t0, t1, entropy, levy="none", **kw):
    import torchsde
    return torchsde.BrownianInterval(t0=t0, t1=t1, size=(B, sde.m), entropy=entropy,
                                     levy_area_approximation=levy, **kw)


def ito_drift_correction(gfun, noise_type):
    """Returns c(t,y) = 1/2 sum_k (d g_k / dy) g_k so that f_ito = f_strat + c  (computed by autograd)."""

    def corr(t, y):
        with torch.enable_grad():
            yy = y.detach().requires_grad_(True)
            g = gfun(t, yy)
            if noise_type == "diagonal":
                # element-wise diffusion: (dg_i/dy_i) g_i
                dg, = torch.autograd.grad(g.sum(), yy, create_graph=False)
                return 0.5 * (dg * g).detach()
            out = torch.zeros_like(yy)
            B, d, m = g.shape
            for k in range(m):
                gk = g[:, :, k]
                for i in range(d):
                    if not gk.requires_grad:
                        continue  # additive noise: no dependence on y
                    gi, = torch.autograd.grad(gk[:, i].sum(), yy, retain_graph=True, allow_unused=True)
                    if gi is not None:
                        out[:, i] = out[:, i] + (gi * gk.detach()).sum(-1)
            return 0.5 * out.detach()
    return corr


def sqrt12():
    return math.sqrt(12.0)


def solve(cell, sde, y0, ts, dt, entropy=None, bm=None, adjoint=False, **kw):
    """Run the real sdeint (or sdeint_adjoint) for a matrix cell on a fresh same-entropy BrownianInterval."""
    import torchsde
    if bm is None:
        t0 = float(ts[0])
        t1 = float(ts[-1])
        bm = torchsde.BrownianInterval(t0=t0, t1=t1, size=(y0.size(0), sde.m), dtype=y0.dtype, entropy=entropy,
                                       levy_area_approximation=levy_for(cell["method"]))
    options = dict(cell["options"]) if cell.get("options") else None
    if "options_obj" in kw:  # the caller's own dict object, handed over as it is (and possibly re-used across calls)
        options = kw.pop("options_obj")
    fn = torchsde.sdeint_adjoint if adjoint else torchsde.sdeint
    return fn(sde, y0, ts, bm=bm, method=cell["method"], dt=dt, options=options, **kw)


def cell_sde(cell, d=3, m=2, seed=0, **kw):
    return NeuralSDE(d, m, cell["noise_type"], cell["sde_type"], seed=seed, **kw)
