#!/venv/bin/python
"""Confirm and file one seeded breaking change produced by an independent sub-agent.

    vt/ingest_seeded.py <src dir with patch.diff, demo.py, notes.md> <seeded id> <property id> "<what it needs to manifest>"
                        [--skip-suite]

Confirmation, all in a scratch git worktree of /repo outside /repo and /verif (removed afterwards):
  1. patch.diff applies to the unchanged tree;
  2. demo.py exits 0 WITHOUT the change and non-zero WITH it (PYTHONPATH=<worktree>);
  3. the repository's own test-suite, unedited, still passes WITH the change (same pass count as the baseline).
Only then are patch.diff, demo.py, notes.md copied to /verif/seeded/<id>/ and meta.json written.
"""
import json
import os
import re
import shutil
import subprocess
import sys
import tempfile
import time

VERIF = os.path.dirname(os.path.dirname(os.path.abspath(__file__)))
PY = "/venv/bin/python"


def sh(cmd, **kw):
    return subprocess.run(cmd, capture_output=True, text=True, **kw)


def main(argv):
    skip = "--skip-suite" in argv
    argv = [a for a in argv if a != "--skip-suite"]
    src, sid, pid, needs = argv[:4]
    wt = tempfile.mkdtemp(prefix="seedwt-")
    os.rmdir(wt)
    r = sh(["git", "-C", "/repo", "worktree", "add", "--detach", wt, "HEAD"])
    assert r.returncode == 0, r.stderr
    ran = []
    try:
        env = dict(os.environ, PYTHONPATH=wt, OMP_NUM_THREADS="1", MKL_NUM_THREADS="1")
        demo = os.path.join(src, "demo.py")
        r0 = sh([PY, demo], env=env, cwd=wt, timeout=900)
        ran.append(f"demo without change: exit {r0.returncode}")
        ap = sh(["git", "apply", os.path.abspath(os.path.join(src, "patch.diff"))], cwd=wt)
        assert ap.returncode == 0, "patch does not apply: " + ap.stderr
        files = sh(["git", "diff", "--stat"], cwd=wt).stdout.strip().splitlines()
        r1 = sh([PY, demo], env=env, cwd=wt, timeout=900)
        ran.append(f"demo with change: exit {r1.returncode}: {(r1.stdout + r1.stderr).strip()[-300:]}")
        assert r0.returncode == 0, "demo fails on the unchanged tree: " + (r0.stdout + r0.stderr)[-500:]
        assert r1.returncode != 0, "demo passes with the change"
        summary = "skipped"
        if not skip:
            t0 = time.time()
            t = sh([PY, "-m", "pytest", "-p", "no:cacheprovider", "--timeout=1800", "-n", "16", "tests", "-W", "ignore",
                    "-q"], env=env, cwd=wt)
            lines = [l for l in t.stdout.splitlines() if re.search(r"\d+ passed", l)]
            summary = lines[-1].strip() if lines else t.stdout[-300:]
            ran.append(f"repo test-suite with change ({time.time() - t0:.0f}s): {summary}")
            assert t.returncode == 0 and "1625 passed" in summary and "failed" not in summary, summary
        dst = os.path.join(VERIF, "seeded", sid)
        os.makedirs(dst, exist_ok=True)
        for f in ("patch.diff", "demo.py", "notes.md"):
            if os.path.exists(os.path.join(src, f)):
                shutil.copy(os.path.join(src, f), os.path.join(dst, f))
        head = sh(["git", "-C", "/repo", "rev-parse", "--short", "HEAD"]).stdout.strip()
        meta = {"id": sid, "breaks": [pid], "needs_to_manifest": needs, "files_changed": files,
                "confirmed_against_repo_head": head, "confirmation": ran,
                "origin": "independent sub-agent given only the property text and a scratch worktree"}
        json.dump(meta, open(os.path.join(dst, "meta.json"), "w"), indent=1)
        print("OK", sid, "|", " | ".join(ran))
        return 0
    except AssertionError as e:
        print("REJECTED", sid, str(e)[:800], "|", " | ".join(ran))
        return 1
    finally:
        sh(["git", "-C", "/repo", "worktree", "remove", "--force", wt])
        shutil.rmtree(wt, ignore_errors=True)


if __name__ == "__main__":
    sys.exit(main(sys.argv[1:]))
