"""Instrumentation: reversible wrappers placed on the real torchsde functions/classes.

Nothing here re-implements library behaviour; every probe forwards to the original
and records (or, for fault/schedule injection, perturbs) what passes through.
Every probe counts its own invocations so that a check can tell "held" from
"monitor never reached".
"""
import contextlib
import sys

import torch

from . import env  # noqa: F401  (fixes sys.path)
import torchsde
from torchsde._brownian import brownian_interval as bi
from torchsde._brownian import brownian_base
from torchsde._core import adaptive_stepping, methods


@contextlib.contextmanager
def patched(obj, name, new):
    old = getattr(obj, name)
    setattr(obj, name, new)
    try:
        yield old
    finally:
        setattr(obj, name, old)


# ----------------------------------------------------------------------------------------------
# Noise sources
# ----------------------------------------------------------------------------------------------
class NoiseLabeller:
    """Replaces brownian_interval._randn: the i-th distinct seed returns the unit vector e_i.

    On an object of size (K,) every returned tensor is then a row of the exact linear map
    (noise sources -> output), so covariances are M M^T with no sampling error.
    """

    def __init__(self, K):
        self.K = K
        self.map = {}
        self.calls = 0
        self.bad_size = []

    def __call__(self, size, dtype, device, seed):
        self.calls += 1
        seed = int(seed)
        if tuple(size) != (self.K,):
            self.bad_size.append(tuple(size))
        if seed not in self.map:
            self.map[seed] = len(self.map)
        idx = self.map[seed]
        if idx >= self.K:
            raise RuntimeError("NoiseLabeller: K too small")
        v = torch.zeros(self.K, dtype=dtype, device=device)
        v[idx] = 1.0
        return v

    @contextlib.contextmanager
    def installed(self):
        with patched(bi, "_randn", self):
            yield self


class NoiseRecorder:
    """Wraps brownian_interval._randn, recording (seed, requested size) and the tensor returned."""

    def __init__(self):
        self.orig = None
        self.by_seed = {}
        self.sizes = []
        self.calls = 0
        self.log = []

    def __call__(self, size, dtype, device, seed):
        self.calls += 1
        out = self.orig(size, dtype, device, seed)
        key = (int(seed), tuple(size))
        self.sizes.append(tuple(size))
        self.log.append(key)
        self.by_seed[key] = out
        return out

    @contextlib.contextmanager
    def installed(self):
        self.orig = bi._randn
        with patched(bi, "_randn", self):
            yield self


# ----------------------------------------------------------------------------------------------
# Brownian tree probes
# ----------------------------------------------------------------------------------------------
class OpBudgetExceeded(Exception):
    pass


class TreeProbe:
    """Counts tree operations, captures the piece list of every query, watches the cache bound.

    op_budget: logical-step bound for ONE public call (reset by `begin_call`); exceeding it raises
    OpBudgetExceeded from inside the library, which the C07 check reports as non-termination.
    """

    def __init__(self, op_budget=None):
        self.op_budget = op_budget
        self.ops_this_call = 0
        self.max_ops_call = 0
        self.n_loc = 0
        self.n_split = 0
        self.n_split_exact = 0
        self.n_dep_tree = 0
        self.n_cache_set = 0
        self.n_evict = 0
        self.max_cache_len = 0
        self.cache_overflow = []
        self.last_pieces = None
        self.multi_piece = 0
        self.empty_dict_nonempty = 0
        self.n_public_calls = 0

    def begin_call(self):
        self.max_ops_call = max(self.max_ops_call, self.ops_this_call)
        self.ops_this_call = 0

    def _tick(self):
        self.ops_this_call += 1
        if self.op_budget is not None and self.ops_this_call > self.op_budget:
            n = self.ops_this_call
            self.max_ops_call = max(self.max_ops_call, n)
            self.ops_this_call = 0
            raise OpBudgetExceeded(f"more than {self.op_budget} tree operations in one call ({n})")

    @contextlib.contextmanager
    def installed(self):
        probe = self
        I = bi._Interval
        o_loc, o_split, o_split_exact = I._loc, I._split, I._split_exact
        o_dep = bi.BrownianInterval._create_dependency_tree
        o_set = bi._LRUDict.__setitem__
        o_loc_inner = I._loc_inner
        o_call = bi.BrownianInterval.__call__

        def call(self_, *a, **k):
            probe.begin_call()  # the operation budget is per public query
            probe.n_public_calls += 1
            return o_call(self_, *a, **k)

        def loc(self_, ta, tb):
            probe.n_loc += 1
            out = o_loc(self_, ta, tb)
            probe.last_pieces = out
            if len(out) > 1:
                probe.multi_piece += 1
            return out

        def loc_inner(self_, ta, tb, out):
            probe._tick()
            return o_loc_inner(self_, ta, tb, out)

        def split(self_, midway):
            probe.n_split += 1
            probe._tick()
            return o_split(self_, midway)

        def split_exact(self_, midway):
            probe.n_split_exact += 1
            probe._tick()
            return o_split_exact(self_, midway)

        def dep(self_, dt):
            probe.n_dep_tree += 1
            return o_dep(self_, dt)

        def setitem(self_, key, value):
            before = len(self_)
            had = key in self_
            o_set(self_, key, value)
            probe.n_cache_set += 1
            after = len(self_)
            if not had and after <= before:
                probe.n_evict += 1
            probe.max_cache_len = max(probe.max_cache_len, after)
            if after > self_._max_size:
                probe.cache_overflow.append((after, self_._max_size))

        I._loc, I._split, I._split_exact, I._loc_inner = loc, split, split_exact, loc_inner
        bi.BrownianInterval._create_dependency_tree = dep
        bi.BrownianInterval.__call__ = call
        bi._LRUDict.__setitem__ = setitem
        try:
            yield self
        finally:
            I._loc, I._split, I._split_exact, I._loc_inner = o_loc, o_split, o_split_exact, o_loc_inner
            bi.BrownianInterval._create_dependency_tree = o_dep
            bi.BrownianInterval.__call__ = o_call
            bi._LRUDict.__setitem__ = o_set
            self.begin_call()


def cache_len(bm):
    """Number of entries currently cached by a BrownianInterval (0 for the _EmptyDict)."""
    c = bm._increment_and_space_time_levy_area_cache
    try:
        return len(c)
    except TypeError:
        return 0


def tree_stats(bm, limit=2_000_000):
    """(nodes, leaves, max depth) of the interval tree by explicit-stack traversal."""
    nodes = leaves = maxd = 0
    stack = [(bm, 0)]
    while stack:
        n, d = stack.pop()
        nodes += 1
        maxd = max(maxd, d)
        if n._midway is None:
            leaves += 1
        else:
            stack.append((n._left_child, d + 1))
            stack.append((n._right_child, d + 1))
        if nodes > limit:
            break
    return nodes, leaves, maxd


class DepthProbe:
    """Max Python call depth reached (relative to installation point), via sys.setprofile."""

    def __init__(self):
        self.depth = 0
        self.max_depth = 0

    def _prof(self, frame, event, arg):
        if event == "call":
            self.depth += 1
            if self.depth > self.max_depth:
                self.max_depth = self.depth
        elif event == "return":
            self.depth -= 1

    @contextlib.contextmanager
    def installed(self):
        self.depth = 0
        old = sys.getprofile()
        sys.setprofile(self._prof)
        try:
            yield self
        finally:
            sys.setprofile(old)


@contextlib.contextmanager
def tight_recursion_limit(extra=400):
    """Recursion limit = current depth + extra: linear recursion fails fast and deterministically."""
    old = sys.getrecursionlimit()
    depth = 0
    f = sys._getframe()
    while f is not None:
        depth += 1
        f = f.f_back
    sys.setrecursionlimit(depth + extra)
    try:
        yield depth + extra
    finally:
        sys.setrecursionlimit(old)


# ----------------------------------------------------------------------------------------------
# Brownian proxies passed through the public API
# ----------------------------------------------------------------------------------------------
class RecordingBrownian(brownian_base.BaseBrownian):
    """Forwards to a real Brownian object; logs every query at the API boundary."""

    def __init__(self, base, keep_values=False):
        super().__init__()
        self.base = base
        self.log = []  # (ta, tb, return_U, return_A)
        self.values = []
        self.keep_values = keep_values

    def __call__(self, ta, tb=None, return_U=False, return_A=False):
        out = self.base(ta, tb, return_U=return_U, return_A=return_A)
        self.log.append((float(ta), None if tb is None else float(tb), bool(return_U), bool(return_A)))
        if self.keep_values:
            self.values.append(out)
        return out

    def __repr__(self):
        return f"RecordingBrownian({self.base!r})"

    dtype = property(lambda self: self.base.dtype)
    device = property(lambda self: self.base.device)
    shape = property(lambda self: self.base.shape)
    levy_area_approximation = property(lambda self: self.base.levy_area_approximation)


class StubBrownian(brownian_base.BaseBrownian):
    """Returns prescribed (W, U, A) whatever the interval: for one-step experiments."""

    def __init__(self, W, U=None, A=None, levy="none"):
        super().__init__()
        self.W, self.U, self.A = W, U, A
        self._levy = levy
        self.calls = []

    def __call__(self, ta, tb=None, return_U=False, return_A=False):
        self.calls.append((float(ta), None if tb is None else float(tb), return_U, return_A))
        out = [self.W]
        if return_U:
            out.append(self.U)
        if return_A:
            out.append(self.A)
        return out[0] if len(out) == 1 else tuple(out)

    def __repr__(self):
        return "StubBrownian()"

    dtype = property(lambda self: self.W.dtype)
    device = property(lambda self: self.W.device)
    shape = property(lambda self: self.W.shape)
    levy_area_approximation = property(lambda self: self._levy)


class ColumnSliceBrownian(brownian_base.BaseBrownian):
    """Presents the first k noise channels of a wider Brownian motion (used by C18)."""

    def __init__(self, base, k):
        super().__init__()
        self.base, self.k = base, k

    def __call__(self, ta, tb=None, return_U=False, return_A=False):
        out = self.base(ta, tb, return_U=return_U, return_A=return_A)
        if torch.is_tensor(out):
            return out[..., :self.k]
        res = [out[0][..., :self.k]]
        i = 1
        if return_U:
            res.append(out[i][..., :self.k])
            i += 1
        if return_A:
            res.append(out[i][..., :self.k, :self.k])
        return tuple(res)

    def __repr__(self):
        return "ColumnSliceBrownian()"

    dtype = property(lambda self: self.base.dtype)
    device = property(lambda self: self.base.device)
    shape = property(lambda self: (*self.base.shape[:-1], self.k))
    levy_area_approximation = property(lambda self: self.base.levy_area_approximation)


# ----------------------------------------------------------------------------------------------
# Solver probes
# ----------------------------------------------------------------------------------------------
class SolverProbe:
    """Wraps methods.select so that every solver instance created by sdeint/sdeint_adjoint is logged.

    Records: the live solver objects (strong_order is read from them), every step
    (t0, t1, y0, y1[, extra]) and, for adaptive runs, every compute_error / update_step_size call.
    `error_script` (callable idx, real_error -> error) injects adversarial error sequences.
    """

    def __init__(self, keep_states=True, error_script=None, step_size_script=None):
        self.solvers = []
        self.steps = []  # dicts
        self.errors = []  # (y_full, y_half, rtol, atol, returned, real, grad_enabled)
        self.updates = []  # (error_estimate, prev_step, prev_ratio, new_step, new_ratio)
        self.keep_states = keep_states
        self.error_script = error_script
        self.step_size_script = step_size_script
        self.select_calls = []
        self.integrate_calls = []  # one entry per solver.integrate call: index ranges into steps / errors / updates
        self.grad_enabled_in_error = 0

    def _instrument(self, solver):
        probe = self
        idx = len(self.solvers)
        self.solvers.append(solver)
        orig_step = solver.step

        def step(t0, t1, y0, extra0):
            y1, extra1 = orig_step(t0, t1, y0, extra0)
            rec = {"solver": idx, "t0": float(t0), "t1": float(t1), "t0_raw": t0, "t1_raw": t1}
            if probe.keep_states:
                rec["y0"], rec["y1"], rec["extra0"], rec["extra1"] = y0, y1, extra0, extra1
            probe.steps.append(rec)
            return y1, extra1

        solver.step = step
        orig_integrate = solver.integrate

        def integrate(y0, ts, extra0):
            call = {"solver": idx, "ts": ts, "steps": [len(probe.steps), None], "errors": [len(probe.errors), None],
                    "updates": [len(probe.updates), None], "grad_enabled": torch.is_grad_enabled()}
            probe.integrate_calls.append(call)
            try:
                return orig_integrate(y0, ts, extra0)
            finally:
                call["steps"][1], call["errors"][1], call["updates"][1] = \
                    len(probe.steps), len(probe.errors), len(probe.updates)

        solver.integrate = integrate
        return solver

    @contextlib.contextmanager
    def installed(self):
        probe = self
        o_select = methods.select
        o_err = adaptive_stepping.compute_error
        o_upd = adaptive_stepping.update_step_size

        def select(method, sde_type):
            cls = o_select(method=method, sde_type=sde_type)
            probe.select_calls.append((method, sde_type, cls.__name__))

            def factory(**kwargs):
                return probe._instrument(cls(**kwargs))
            return factory

        def compute_error(y11, y12, rtol, atol, *a, **k):
            real = o_err(y11, y12, rtol, atol, *a, **k)
            ge = torch.is_grad_enabled()
            if ge:
                probe.grad_enabled_in_error += 1
            ret = real
            if probe.error_script is not None:
                ret = probe.error_script(len(probe.errors), real)
            probe.errors.append({"y_full": y11, "y_half": y12, "rtol": rtol, "atol": atol,
                                 "returned": ret, "real": real, "grad_enabled": ge})
            return ret

        def update_step_size(error_estimate, prev_step_size, *a, **k):
            new_step, new_ratio = o_upd(error_estimate, prev_step_size, *a, **k)
            if probe.step_size_script is not None:
                new_step, new_ratio = probe.step_size_script(len(probe.updates), new_step, new_ratio)
            probe.updates.append({"error": error_estimate, "prev_step": float(prev_step_size),
                                  "new_step": float(new_step)})
            return new_step, new_ratio

        methods.select = select
        adaptive_stepping.compute_error = compute_error
        adaptive_stepping.update_step_size = update_step_size
        try:
            yield self
        finally:
            methods.select = o_select
            adaptive_stepping.compute_error = o_err
            adaptive_stepping.update_step_size = o_upd


def make_bm(**kw):
    return torchsde.BrownianInterval(**kw)
