"""SDE families with exact solutions that are functions of the driving path's W(t0,t) (and U(t0,t)) only.

Every family is defined once, in Stratonovich form (f_s, g) together with its exact solution; the Ito drift is
f_s + 1/2 sum_k (d g_k) g_k, written analytically per family and cross-checked against an autograd computation of
the same correction (zoo.ito_drift_correction) by `crosscheck()`.

All coefficients are nn.Parameters, and `exact` is differentiable, so closed-form *gradients* (C09) are obtained by
autograd through `exact` - no hand-derived gradient formulas.
"""
import math

import torch
from torch import nn

from . import zoo


class Family(nn.Module):
    needs_U = False
    # families whose diffusion has g'' != 0 etc. are all fine for every solver accepting the noise type
    def __init__(self, noise_type, sde_type, d, m):
        super().__init__()
        self.noise_type, self.sde_type, self.d, self.m = noise_type, sde_type, d, m

    def f(self, t, y):
        fs = self.f_strat(t, y)
        if self.sde_type == "ito":
            return fs + self.ito_correction(t, y)
        return fs

    def y0(self, B, gen):
        return 0.5 + torch.rand(B, self.d, generator=gen)


def _t(t, y):
    return torch.as_tensor(t, dtype=y.dtype)


def _par(x, batch, gen):
    """Parameter; with batch=B every path gets its own (slightly jittered) copy: shape (B, *x.shape)."""
    if batch is None:
        return nn.Parameter(x)
    xb = x.unsqueeze(0).expand(batch, *x.shape) * (1 + 0.05 * torch.randn(batch, *x.shape, generator=gen))
    return nn.Parameter(xb.contiguous())


class GBM(Family):
    """dy = a y dt + s y o dW (component-wise); diagonal, or scalar noise (one W for all components)."""

    def __init__(self, noise_type, sde_type, d, seed=0, batch=None):
        super().__init__(noise_type, sde_type, d, d if noise_type == "diagonal" else 1)
        g = torch.Generator().manual_seed(seed)
        self.a = _par(torch.rand(d, generator=g) * 0.8 - 0.5, batch, g)
        self.s = _par(torch.rand(d, generator=g) * 0.5 + 0.3, batch, g)

    def f_strat(self, t, y):
        return self.a * y

    def ito_correction(self, t, y):
        return 0.5 * self.s ** 2 * y

    def g(self, t, y):
        g = self.s * y
        return g if self.noise_type == "diagonal" else g.unsqueeze(-1)

    def exact(self, t0, t, y0, W, U=None):
        return y0 * torch.exp(self.a * (t - t0) + self.s * W)


class TimeGBM(Family):
    """dy = a y dt + (c0 + c1 t) y o dW: needs int b dW = b(t) W - c1 U (space-time Levy area)."""
    needs_U = True

    def __init__(self, noise_type, sde_type, d, seed=0, batch=None):
        super().__init__(noise_type, sde_type, d, d if noise_type == "diagonal" else 1)
        g = torch.Generator().manual_seed(seed)
        self.a = _par(torch.rand(d, generator=g) * 0.6 - 0.4, batch, g)
        self.c0 = _par(torch.rand(d, generator=g) * 0.4 + 0.2, batch, g)
        self.c1 = _par(torch.rand(d, generator=g) * 0.6 - 0.3, batch, g)

    def b(self, t):
        return self.c0 + self.c1 * t

    def f_strat(self, t, y):
        return self.a * y

    def ito_correction(self, t, y):
        return 0.5 * self.b(_t(t, y)) ** 2 * y

    def g(self, t, y):
        g = self.b(_t(t, y)) * y
        return g if self.noise_type == "diagonal" else g.unsqueeze(-1)

    def exact(self, t0, t, y0, W, U):
        return y0 * torch.exp(self.a * (t - t0) + self.b(t) * W - self.c1 * U)


class Arctan(Family):
    """dy = p cos^2(y) o dW  ->  y = arctan(p W + tan y0)   (Rackauckas-Nie example 2; g'' != 0)."""

    def __init__(self, noise_type, sde_type, d, seed=0, batch=None):
        super().__init__(noise_type, sde_type, d, d if noise_type == "diagonal" else 1)
        g = torch.Generator().manual_seed(seed)
        self.p = _par(torch.rand(d, generator=g) * 0.5 + 0.5, batch, g)

    def f_strat(self, t, y):
        return torch.zeros_like(y)

    def ito_correction(self, t, y):
        return -self.p ** 2 * torch.cos(y) ** 3 * torch.sin(y)

    def g(self, t, y):
        g = self.p * torch.cos(y) ** 2
        return g if self.noise_type == "diagonal" else g.unsqueeze(-1)

    def exact(self, t0, t, y0, W, U=None):
        return torch.atan(self.p * W + torch.tan(y0))

    def y0(self, B, gen):
        return torch.rand(B, self.d, generator=gen) * 1.6 - 0.8


class Sinh(Family):
    """dy = c sqrt(1+y^2) dt + a sqrt(1+y^2) o dW  ->  y = sinh(asinh y0 + c tau + a W)."""

    def __init__(self, noise_type, sde_type, d, seed=0, batch=None):
        super().__init__(noise_type, sde_type, d, d if noise_type == "diagonal" else 1)
        g = torch.Generator().manual_seed(seed)
        self.c = _par(torch.rand(d, generator=g) * 0.6 - 0.3, batch, g)
        self.a = _par(torch.rand(d, generator=g) * 0.4 + 0.3, batch, g)

    def f_strat(self, t, y):
        return self.c * torch.sqrt(1 + y ** 2)

    def ito_correction(self, t, y):
        return 0.5 * self.a ** 2 * y

    def g(self, t, y):
        g = self.a * torch.sqrt(1 + y ** 2)
        return g if self.noise_type == "diagonal" else g.unsqueeze(-1)

    def exact(self, t0, t, y0, W, U=None):
        return torch.sinh(torch.asinh(y0) + self.c * (t - t0) + self.a * W)

    def y0(self, B, gen):
        return torch.randn(B, self.d, generator=gen)


def expm(E):
    """Matrix exponential by scaling-and-squaring of a 24-term Taylor polynomial (float64, ~1e-16 relative).

    torch.matrix_exp picks a low polynomial degree for small norms and is then only accurate to ~5e-12 (measured: norm
    0.039 -> error 4.9e-12), which is above the size of the order-2.5 mean residuals C02 has to resolve."""
    nrm = float(E.abs().sum(-1).max())
    s = 0
    while nrm > 0.25:
        nrm *= 0.5
        s += 1
    X = E / (2.0 ** s)
    out = torch.eye(E.size(-1), dtype=E.dtype)
    term = torch.eye(E.size(-1), dtype=E.dtype)
    for n in range(1, 25):
        term = term @ X / n
        out = out + term
    for _ in range(s):
        out = out @ out
    return out


class LinearCommuting(Family):
    """dy = A y dt + sum_k B_k y o dW_k with commuting, NON-symmetric matrices: y = expm(A tau + sum B_k W_k) y0.

    noise_type scalar (m=1) or general (m>=1). B_k = b_k0 I + b_k1 M + b_k2 M^2,  A = a0 I + a1 M."""

    def __init__(self, noise_type, sde_type, d, m, seed=0, batch=None):
        super().__init__(noise_type, sde_type, d, 1 if noise_type == "scalar" else m)
        g = torch.Generator().manual_seed(seed)
        M = torch.triu(torch.rand(d, d, generator=g) * 0.8 + 0.2)  # upper triangular, non-symmetric, non-normal
        M = M + 0.3 * torch.diag(torch.rand(d, generator=g))
        self.register_buffer("M", M * 0.5)
        self.batch = batch
        self.acoef = _par(torch.tensor([-0.3, 0.2]), batch, g)
        self.bcoef = _par(torch.rand(self.m, 3, generator=g) * 0.6 - 0.1, batch, g)

    def _poly(self, c0, c1, c2=None):
        """c0 I + c1 M + c2 M^2; coefficients scalar or (B,) -> (d,d) or (B,d,d)."""
        eye = torch.eye(self.d)
        if self.batch is not None:
            c0, c1 = c0.reshape(-1, 1, 1), c1.reshape(-1, 1, 1)
            c2 = None if c2 is None else c2.reshape(-1, 1, 1)
        out = c0 * eye + c1 * self.M
        if c2 is not None:
            out = out + c2 * (self.M @ self.M)
        return out

    def A(self):
        return self._poly(self.acoef[..., 0], self.acoef[..., 1])

    def Bs(self):
        return [self._poly(self.bcoef[..., k, 0], self.bcoef[..., k, 1], self.bcoef[..., k, 2]) for k in range(self.m)]

    def _mv(self, Mx, y):
        return torch.einsum("bij,bj->bi", Mx, y) if Mx.dim() == 3 else y @ Mx.T

    def f_strat(self, t, y):
        return self._mv(self.A(), y)

    def ito_correction(self, t, y):
        return 0.5 * sum(self._mv(Bk @ Bk, y) for Bk in self.Bs())

    def g(self, t, y):
        return torch.stack([self._mv(Bk, y) for Bk in self.Bs()], dim=-1)

    def exact(self, t0, t, y0, W, U=None):
        Bs = self.Bs()
        A = self.A()
        out = []
        for b in range(y0.size(0)):
            pick = (lambda Mx: Mx[b]) if self.batch is not None else (lambda Mx: Mx)
            E = pick(A) * (t - t0) + sum(pick(Bs[k]) * W[b, k] for k in range(self.m))
            out.append(expm(E) @ y0[b])
        return torch.stack(out)


class AdditiveRN(Family):
    """dy = (beta/sqrt(1+t) - y/(2(1+t))) dt + C/sqrt(1+t) dW   (Rackauckas-Nie example 3, any m):
    sqrt(1+t) y_t = sqrt(1+t0) y_0 + beta tau + C W."""

    def __init__(self, noise_type, sde_type, d, m, seed=0, batch=None):
        super().__init__("additive", sde_type, d, m)
        g = torch.Generator().manual_seed(seed)
        self.batch = batch
        self.beta = _par(torch.rand(d, generator=g) - 0.5, batch, g)
        self.C = _par(torch.rand(d, m, generator=g) * 0.8 - 0.4, batch, g)

    def f_strat(self, t, y):
        t = _t(t, y)
        return self.beta / torch.sqrt(1 + t) - y / (2 * (1 + t))

    def ito_correction(self, t, y):
        return torch.zeros_like(y)

    def g(self, t, y):
        t = _t(t, y)
        G = self.C / torch.sqrt(1 + t)
        return G if self.batch is not None else G.unsqueeze(0).expand(y.size(0), -1, -1)

    def exact(self, t0, t, y0, W, U=None):
        CW = torch.einsum("bik,bk->bi", self.C, W) if self.batch is not None else W @ self.C.T
        return (math.sqrt(1 + t0) * y0 + self.beta * (t - t0) + CW) / math.sqrt(1 + t)


def families_for(noise_type, sde_type, seed=0, d=None, batch=None):
    """List of (name, family) applicable to a noise type. batch=B: every path has its own parameter copy."""
    out = []
    kw = dict(seed=seed, batch=batch)
    if noise_type == "diagonal":
        d = d or 2
        out += [("gbm", GBM("diagonal", sde_type, d, **kw)), ("arctan", Arctan("diagonal", sde_type, d, **kw)),
                ("sinh", Sinh("diagonal", sde_type, d, **kw)), ("timegbm", TimeGBM("diagonal", sde_type, d, **kw))]
    elif noise_type == "scalar":
        out += [("lincomm", LinearCommuting("scalar", sde_type, d or 2, 1, **kw)),
                ("gbm", GBM("scalar", sde_type, d or 2, **kw)),
                ("arctan", Arctan("scalar", sde_type, 1, **kw)),
                ("timegbm", TimeGBM("scalar", sde_type, d or 2, **kw))]
    elif noise_type == "additive":
        out += [("additive_rn", AdditiveRN("additive", sde_type, d or 2, 3, **kw)),
                ("additive_rn1", AdditiveRN("additive", sde_type, 1, 1, seed=seed + 1, batch=batch))]
    else:
        out += [("lincomm", LinearCommuting("general", sde_type, d or 2, 2, **kw)),
                ("lincomm3", LinearCommuting("general", sde_type, 3, 3, seed=seed + 1, batch=batch))]
    return out


class Float32View(torch.nn.Module):
    """A float64 closed-form family presented as a float32 SDE: coefficients are evaluated by the family in float64 and
    handed back in the state's dtype, so the solver's own arithmetic (increments, Milstein / Runge-Kutta stages, finite
    differences) runs in float32."""

    def __init__(self, fam):
        super().__init__()
        self.fam = fam
        self.noise_type, self.sde_type, self.m, self.d = fam.noise_type, fam.sde_type, fam.m, fam.d
        self.needs_U = getattr(fam, "needs_U", False)

    def f(self, t, y):
        return self.fam.f(torch.as_tensor(t, dtype=torch.float64), y.double()).to(y.dtype)

    def g(self, t, y):
        return self.fam.g(torch.as_tensor(t, dtype=torch.float64), y.double()).to(y.dtype)


def exact_on_path(fam, bm, t0, t, y0):
    """Evaluate the exact solution on the very Brownian object the solver consumed."""
    if bm.levy_area_approximation != "none":
        out = bm(t0, t, return_U=True)
        W, U = out[0], out[1]
    else:
        W, U = bm(t0, t), None
    if W.dtype != torch.float64:  # float32 path (Float32View runs): the closed form itself is evaluated in float64
        W, U, y0 = W.double(), (None if U is None else U.double()), y0.double()
    if fam.needs_U and U is None:
        raise ValueError("family needs U: build the Brownian motion with a space-time Levy area")
    if fam.noise_type == "scalar" and not isinstance(fam, LinearCommuting):
        pass  # W has shape (B, 1): broadcasts over components
    return fam.exact(t0, t, y0, W, U)


def crosscheck():
    """Analytic Ito corrections vs autograd; returns the worst discrepancy."""
    worst = 0.0
    gen = torch.Generator().manual_seed(0)
    for nt in zoo.NOISE_TYPES:
        for name, fam in families_for(nt, "ito", seed=3):
            y = fam.y0(3, gen)
            t = torch.tensor(0.7)
            want = zoo.ito_drift_correction(fam.g, nt)(t, y)
            got = fam.ito_correction(t, y).detach()
            worst = max(worst, float((got - want).abs().max()))
    return worst
