#!/venv/bin/python
"""Self-test of the monitors: apply breaking changes to a scratch copy of /repo and see which checks fire.

    vt/killmatrix.py [--own NAME[,NAME..]|all] [--seeded ID[,ID..]|all] [--props expected|all|C01,C02..]
                     [--tier quick|thorough] [--tests] [--fresh]

For every selected change a scratch copy of /repo's working tree (torchsde/ and tests/) is made under the system temp
directory, the change is applied there (own mutants: exact text replacement from mutants/own.py; seeded changes:
`git apply` of seeded/<id>/patch.diff), the selected checks are run with VERIF_REPO=<scratch> and VERIF_OUT=<scratch>/out
(so the committed evidence is never touched), and the scratch copy is removed. Results are merged into
selftest/kill_matrix.json: per change and property: exit code, seconds, violation mechanisms; with --tests also the
summary line of the repository's own test-suite on the changed copy. This is not a MANIFEST check.
"""
import json
import os
import shutil
import subprocess
import sys
import tempfile
import time

HERE = os.path.dirname(os.path.abspath(__file__))
VERIF = os.path.dirname(HERE)
sys.path.insert(0, VERIF)
REPO = os.environ.get("VERIF_REPO", "/repo")
PY = sys.executable
OUTFILE = os.environ.get("VERIF_KM_OUT") or os.path.join(VERIF, "selftest", "kill_matrix.json")
ALL_PROPS = [f"C{i:02d}" for i in range(1, 21)]


def load_own():
    from mutants import own
    return own.M


def load_seeded():
    d = os.path.join(VERIF, "seeded")
    out = {}
    if os.path.isdir(d):
        for name in sorted(os.listdir(d)):
            mp = os.path.join(d, name, "meta.json")
            if os.path.exists(mp):
                meta = json.load(open(mp))
                out[name] = dict(patch=os.path.join(d, name, "patch.diff"), breaks=meta.get("breaks", []),
                                 note=meta.get("summary", ""))
    return out


def make_scratch():
    root = tempfile.mkdtemp(prefix="vt-mut-")
    for sub in ("torchsde", "tests"):
        shutil.copytree(os.path.join(REPO, sub), os.path.join(root, sub),
                        ignore=shutil.ignore_patterns("__pycache__", "*.pyc"))
    return root


def apply_own(root, m):
    path = os.path.join(root, m["file"])
    s = open(path).read()
    n = s.count(m["old"])
    if n != 1:
        raise RuntimeError(f"'old' text occurs {n} times in {m['file']}")
    open(path, "w").write(s.replace(m["old"], m["new"]))
    subprocess.run([PY, "-c", f"import ast,sys;ast.parse(open({path!r}).read())"], check=True)
    for f2, old2, new2 in m.get("more", []):
        apply_own(root, dict(file=f2, old=old2, new=new2))


def apply_patch(root, patch):
    p = subprocess.run(["git", "apply", "--verbose", os.path.abspath(patch)], cwd=root, capture_output=True, text=True)
    if p.returncode != 0:
        raise RuntimeError("git apply failed: " + p.stderr[-500:])


def run_check(root, pid, tier):
    env = dict(os.environ, VERIF_REPO=root, VERIF_OUT=os.path.join(root, "out"))
    t0 = time.time()
    p = subprocess.run([PY, os.path.join(HERE, "run.py"), pid, tier], cwd=VERIF, env=env, capture_output=True, text=True)
    mech = []
    try:
        ev = json.load(open(os.path.join(root, "out", "evidence", f"{pid}.json")))
        mech = ev["coverage"].get("violation_mechanisms", [])
    except Exception:
        pass
    incon = [l[:300] for l in p.stdout.splitlines() if l.startswith("INCONCLUSIVE")][:2]
    return dict(rc=p.returncode, wall_s=round(time.time() - t0, 1), mechanisms=mech[:12], inconclusive=incon)


def run_tests(root):
    env = dict(os.environ, PYTHONPATH=root, OMP_NUM_THREADS="1", MKL_NUM_THREADS="1")
    p = subprocess.run([PY, "-m", "pytest", "-p", "no:cacheprovider", "--timeout=1800", "-n", "16", "tests", "-W",
                        "ignore", "-q", "-x"], cwd=root, env=env, capture_output=True, text=True)
    tail = [l for l in p.stdout.splitlines() if " passed" in l or " failed" in l or " error" in l]
    return dict(rc=p.returncode, summary=(tail[-1] if tail else p.stdout[-300:]))


def main(argv):
    own_sel, seeded_sel, props, tier, tests, fresh = None, None, "expected", "quick", False, False
    i = 0
    while i < len(argv):
        a = argv[i]
        if a == "--own":
            own_sel = argv[i + 1]; i += 2
        elif a == "--seeded":
            seeded_sel = argv[i + 1]; i += 2
        elif a == "--props":
            props = argv[i + 1]; i += 2
        elif a == "--tier":
            tier = argv[i + 1]; i += 2
        elif a == "--tests":
            tests = True; i += 1
        elif a == "--fresh":
            fresh = True; i += 1
        else:
            raise SystemExit(__doc__)
    todo = []
    if own_sel:
        own = load_own()
        for n in (own if own_sel == "all" else own_sel.split(",")):
            todo.append(("own:" + n, own[n]))
    if seeded_sel:
        sd = load_seeded()
        for n in (sd if seeded_sel == "all" else seeded_sel.split(",")):
            todo.append(("seeded:" + n, sd[n]))
    os.makedirs(os.path.dirname(OUTFILE), exist_ok=True)
    db = {}
    if os.path.exists(OUTFILE) and not fresh:
        db = json.load(open(OUTFILE))
    head = subprocess.run(["git", "-C", REPO, "rev-parse", "--short", "HEAD"], capture_output=True, text=True).stdout.strip()
    for name, m in todo:
        root = make_scratch()
        try:
            try:
                if "patch" in m:
                    apply_patch(root, m["patch"])
                else:
                    apply_own(root, m)
            except Exception as e:
                print(f"{name}: CANNOT APPLY: {e}", flush=True)
                db.setdefault(name, {})["apply_error"] = str(e)[:300]
                continue
            ent = db.setdefault(name, {})
            ent.pop("apply_error", None)
            ent.update(expected=m["breaks"], note=m.get("note", ""), repo_head=head)
            ent.setdefault("checks", {})
            if tests:
                ent["repo_tests"] = run_tests(root)
                print(f"{name}: repo tests: {ent['repo_tests']['summary']}", flush=True)
            sel = m["breaks"] if props == "expected" else (ALL_PROPS if props == "all" else props.split(","))
            for pid in sel:
                r = run_check(root, pid, tier)
                ent["checks"][f"{pid}:{tier}"] = r
                flag = {0: "silent", 1: "FIRED", 2: "inconclusive"}.get(r["rc"], f"rc={r['rc']}")
                exp = "expected" if pid in m["breaks"] else "not-expected"
                print(f"{name}: {pid} {tier} {flag} ({exp}) {r['wall_s']}s {r['mechanisms'][:3]} {r['inconclusive'][:1]}",
                      flush=True)
            fired = sorted({k.split(":")[0] for k, v in ent["checks"].items() if v["rc"] == 1})
            ent["fired"] = fired
            ent["caught"] = bool(fired)
        finally:
            shutil.rmtree(root, ignore_errors=True)
            with open(OUTFILE, "w") as f:
                json.dump(db, f, indent=1, sort_keys=True)
    missed = [n for n, _ in todo if db.get(n, {}).get("expected") and not db[n].get("caught")]
    print(f"done: {len(todo)} changes, not caught: {missed}")
    return 0


if __name__ == "__main__":
    sys.exit(main(sys.argv[1:]))
