"""Ride-along cases: run a slice of the repository's own test-suite with the passive monitors of vt/ridealong.py.

    cases_for(pid, tier, seed) -> case dicts (kind "ride")   run_case(case) -> result dict for vt/run.py

A case is a list of pytest node ids (collected from $VERIF_REPO/tests at enumeration time, so renamed or new tests are
picked up) run in one pytest process with `-p vt.ridealong` and VT_RIDE=<property>. quick: a seeded sample of short tests
(about 10 CPU-seconds per case, 8 cases); thorough: every test of the relevant files, dealt over 32 cases. The durations
in vt/ride_durations.json are hints for sampling and load balancing only.
"""
import json
import os
import random
import subprocess
import sys
import tempfile

HERE = os.path.dirname(os.path.abspath(__file__))
VERIF = os.path.dirname(HERE)
REPO = os.environ.get("VERIF_REPO", "/repo")

FILES = {
    "C03": ["test_brownian_interval.py", "test_brownian_path.py", "test_brownian_tree.py", "test_sdeint.py", "test_adjoint.py"],
    "C05": ["test_brownian_interval.py", "test_brownian_path.py", "test_brownian_tree.py", "test_sdeint.py", "test_adjoint.py"],
    "C07": ["test_brownian_interval.py", "test_brownian_path.py", "test_brownian_tree.py", "test_sdeint.py", "test_adjoint.py"],
    "C12": ["test_sdeint.py", "test_adjoint.py"],
    "C14": ["test_sdeint.py", "test_adjoint.py"],
}
# counters of vt/ridealong.py that must be positive (summed over the ride cases) for the ride to count as observed
REQUIRED = {
    "C03": ["ride_c03_additivity_triples", "ride_c03_antisymmetry"],
    "C05": ["ride_c05_repeats"],
    "C07": ["ride_c07_cache_insertions"],
    "C12": ["ride_c12_integrate_calls", "ride_c12_outputs_inside_step"],
    "C14": ["ride_c14_trials", "ride_c14_rejected"],
}


def _env():
    return dict(os.environ, PYTHONPATH=VERIF + os.pathsep + REPO, VERIF_REPO=REPO, OMP_NUM_THREADS="1",
                MKL_NUM_THREADS="1", PYTHONDONTWRITEBYTECODE="1")


def _collect(files):
    args = [os.path.join("tests", f) for f in files if os.path.exists(os.path.join(REPO, "tests", f))]
    p = subprocess.run([sys.executable, "-m", "pytest", "-p", "no:cacheprovider", "--collect-only", "-q", "-W", "ignore"]
                       + args, cwd=REPO, env=_env(), capture_output=True, text=True, timeout=600)
    ids = [l.strip() for l in p.stdout.splitlines() if "::" in l and not l.startswith(("ERROR", "=", " "))]
    return [i for i in ids if "cuda" not in i]


def cases_for(pid, tier, seed):
    try:
        ids = _collect(FILES[pid])
    except Exception as e:  # noqa
        ids = []
        err = f"{type(e).__name__}: {e}"
    if not ids:
        return [{"key": "ride-collect", "kind": "ride", "pid": pid, "ids": [], "cost": 0.1,
                 "error": "no tests collected from the repository's test-suite"}]
    try:
        dur = json.load(open(os.path.join(HERE, "ride_durations.json")))
    except Exception:
        dur = {}
    cost = {i: dur.get(i, 0.05) + 0.02 for i in ids}
    rng = random.Random(f"ride-{pid}-{seed}")
    if tier == "quick":
        n_cases, budget = 8, 9.0
        pool = [i for i in ids if cost[i] <= 4.0]
        rng.shuffle(pool)
        # every file of interest is represented in the sample
        byfile = {}
        for i in pool:
            byfile.setdefault(i.split("::")[0], []).append(i)
        chunks = [[] for _ in range(n_cases)]
        loads = [0.0] * n_cases
        files = sorted(byfile)
        k = 0
        while any(byfile.values()) and min(loads) < budget:
            f = files[k % len(files)]
            k += 1
            if not byfile[f]:
                continue
            i = byfile[f].pop()
            j = loads.index(min(loads))
            chunks[j].append(i)
            loads[j] += cost[i]
    else:
        n_cases = 32
        chunks = [[] for _ in range(n_cases)]
        loads = [0.0] * n_cases
        for i in sorted(ids, key=lambda i: -cost[i]):
            j = loads.index(min(loads))
            chunks[j].append(i)
            loads[j] += cost[i]
    out = []
    for j, ch in enumerate(chunks):
        if ch:
            out.append({"key": f"ride{j}", "kind": "ride", "pid": pid, "ids": ch, "cost": max(1.0, loads[j] / 3.0),
                        "timeout": 3000})
    return out


def run_case(case):
    if case.get("error"):
        return {"inconclusive": [case["error"]]}
    pid = case["pid"]
    base = os.path.join(os.environ.get("VERIF_OUT") or VERIF, ".work")  # same scratch area as vt/run.py, never /tmp
    os.makedirs(base, exist_ok=True)
    work = tempfile.mkdtemp(prefix="vt-ride-", dir=base)
    outf = os.path.join(work, "ride.json")
    argf = os.path.join(work, "ids.txt")
    try:
        with open(argf, "w") as f:
            f.write("\n".join(case["ids"]) + "\n")
        env = dict(_env(), VT_RIDE=pid, VT_RIDE_OUT=outf)
        p = subprocess.run([sys.executable, "-m", "pytest", "-p", "no:cacheprovider", "-p", "vt.ridealong", "-q", "-W",
                            "ignore", "--timeout=1800", "@" + argf], cwd=REPO, env=env, capture_output=True, text=True)
        tail = (p.stdout + p.stderr)[-1200:]
        if not os.path.exists(outf):
            return {"inconclusive": [f"ride-along pytest wrote no report (rc={p.returncode}): {tail}"]}
        rep = json.load(open(outf))
    finally:
        import shutil
        shutil.rmtree(work, ignore_errors=True)
    res = {"violations": rep["violations"], "inconclusive": [], "max": {"ride_" + k: v for k, v in rep["max"].items()},
           "counters": {"ride_" + k: v for k, v in rep["counters"].items()}}
    res["counters"]["ride_tests_run"] = rep["tests"]
    res["counters"]["ride_cases"] = 1
    for e in rep["errors"][:3]:
        res["inconclusive"].append("ride-along monitor raised: " + e[:900])
    if p.returncode != 0 and not rep["violations"]:
        # a repository test that fails under passive monitors (it passes without them) means the monitors disturbed it
        # or the tree is broken in a way its own tests see: neither is ours to call a violation
        res["inconclusive"].append(f"repository tests failed during the ride-along (rc={p.returncode}): {tail[-600:]}")
    need = REQUIRED[pid][0]
    res["nontrivial"] = res["counters"].get(need, 0) > 0
    res["sample"] = {"tests": rep["tests"], "first_ids": case["ids"][:3],
                     **{k: v for k, v in list(res["counters"].items())[:10]}}
    return res
