"""Generators of Brownian-object configurations and query histories (shared by C03-C07, C20)."""
import math
import random

import torch

from . import env  # noqa: F401
import torchsde

LEVY = ["none", "space-time", "davie", "foster"]
DT = {"f64": torch.float64, "f32": torch.float32}


def random_config(rng, wrappers=("interval",), allow_f32=True, levy=None, shapes=None, max_span=5.0,
                  offgrid_ends_ok=False):
    """A constructor configuration the documentation allows (JSON-serialisable dict)."""
    wrapper = rng.choice(list(wrappers))
    shapes = shapes or [[], [3], [2, 3], [4, 2], [2, 3, 2], [1, 2], [3, 1]]
    cfg = {
        "wrapper": wrapper,
        "shape": rng.choice(shapes),
        "levy": levy or rng.choice(LEVY),
        "dtype": "f32" if (allow_f32 and rng.random() < 0.12) else "f64",
        "entropy": rng.randrange(1, 2 ** 31 - 1),
    }
    # boundary values of the seed: 0 is a legal entropy (falsy!), and numpy accepts arbitrarily large ints
    r = rng.random()
    if r < 0.06:
        cfg["entropy"] = 0
    elif r < 0.10:
        cfg["entropy"] = 2 ** 40 + rng.randrange(2 ** 20)
    # (0.12345 / -0.98765: end points that are NOT on the rounding grid of any tolerance used below)
    t0 = rng.choice([0.0, -1.5, 2.0, 0.25, -0.5, -1.0, 0.12345, -0.98765])
    span = rng.choice([1.0, 0.37, max_span])
    cfg["t0"], cfg["t1"] = t0, t0 + span
    # the end points may be handed over as 0-d tensors (this is what sdeint itself does for its default Brownian motion)
    cfg["tensor_ends"] = rng.random() < 0.15
    if wrapper == "interval" or wrapper == "reverse":
        halfway = rng.random() < 0.25
        cfg["halfway"] = halfway
        if halfway:
            cfg["tol"] = rng.choice([1e-2, 1e-3, 1e-5, 1e-6, 5e-4, 2.5e-3])
            cfg["dt"] = None
        else:
            cfg["tol"] = rng.choice([0.0, 0.0, 0.0, 1e-3, 1e-6, 5e-4])
            dtm = rng.choice(["none", "none", "right", "big", "small"])
            cfg["dt_mode"] = dtm
            cfg["dt"] = None  # filled by history generator ("right" needs the step size)
        cfg["cache"] = rng.choice([0, 1, 2, 5, 45, None])
        cfg["supply"] = rng.choice(["none", "none", "none", "W", "WH"])
        # pool_size is a documented option (entropy pool of every node's SeedSequence; numpy's minimum is 4)
        cfg["pool"] = rng.choice([8, 8, 8, 4, 5, 16, 24])
    elif wrapper == "path":
        cfg["t1"] = t0 + 1.0
        cfg["levy"] = "none"
        cfg["tol"] = 0.0
    elif wrapper == "tree":
        cfg["levy"] = "none"
        cfg["tol"] = rng.choice([1e-3, 1e-6, 1e-6, 5e-4])
        cfg["supply"] = rng.choice(["none", "none", "W"])
        cfg["pool"] = rng.choice([24, 24, 4, 8])
    if (cfg.get("tol") or 0) > 0 and not offgrid_ends_ok and t0 in (0.12345, -0.98765):
        # with a tolerance, an end point off the tolerance grid is not a "resolved time": the relational checks (C03-C06)
        # keep their objects' ends on the grid; crash-freedom (C07) is checked with off-grid ends as well
        t0r = round(t0, 2)
        cfg["t0"], cfg["t1"] = t0r, t0r + (cfg["t1"] - t0)
    return cfg


def ndigits(tol):
    return -int(math.log10(tol))


def grid_round(cfg):
    tol = cfg.get("tol", 0.0)
    t0, t1 = cfg["t0"], cfg["t1"]
    if tol and tol > 0:
        nd = ndigits(tol)
        return lambda x: min(max(round(x, nd), t0), t1)
    return lambda x: min(max(x, t0), t1)


def special_times(cfg):
    """Boundary times of a configuration (base frame): the end points, exactly 0.0 / -0.0 when inside, dyadic
    fractions of the interval (node boundaries in dyadic-tree mode), integers inside the interval."""
    t0, t1 = cfg["t0"], cfg["t1"]
    rd = grid_round(cfg)
    out = [t0, t1]
    if t0 <= 0.0 <= t1:
        out += [0.0, -0.0]
    for j in (1, 2, 3, 4):
        for k in range(1, 2 ** j, 2):
            out.append(rd(t0 + (t1 - t0) * k / 2 ** j))
    out += [float(i) for i in range(int(math.ceil(t0)), int(math.floor(t1)) + 1)]
    return out


def pick_time(cfg, rng, p_special=0.2):
    if rng.random() < p_special:
        return rng.choice(special_times(cfg))
    return grid_round(cfg)(rng.uniform(cfg["t0"], cfg["t1"]))


def as_arg(t, rng):
    """The documentation allows floats or 0-d tensors as times; ints are floats too. Same value, different type."""
    r = rng.random()
    if r < 0.08:
        return torch.tensor(t, dtype=torch.float64)
    if r < 0.12 and float(t).is_integer():
        return int(t)
    return t


def build(cfg, step_hint=None):
    """Construct the real object(s). Returns (bm, base_interval, meta)."""
    dtype = DT[cfg["dtype"]]
    shape = tuple(cfg["shape"])
    g = torch.Generator().manual_seed((cfg["entropy"] + 12345) % (2 ** 31))
    span = cfg["t1"] - cfg["t0"]
    W = H = None
    if cfg.get("supply") in ("W", "WH"):
        W = torch.randn(shape, dtype=dtype, generator=g) * math.sqrt(span)
    if cfg.get("supply") == "WH":
        H = torch.randn(shape, dtype=dtype, generator=g) * math.sqrt(span / 12)
    w = cfg["wrapper"]
    meta = {"W": W, "H": H}
    if w in ("interval", "reverse"):
        dt = None
        if not cfg["halfway"]:
            mode = cfg.get("dt_mode", "none")
            base = step_hint if step_hint else span / 50
            if mode == "right":
                dt = base
            elif mode == "big":
                dt = min(10 * base, span)
            elif mode == "small":
                dt = base / 10
        e0, e1 = cfg["t0"], cfg["t1"]
        if cfg.get("tensor_ends"):
            e0, e1 = torch.tensor(e0, dtype=torch.float64), torch.tensor(e1, dtype=torch.float64)
        kw = dict(t0=e0, t1=e1, size=shape, dtype=dtype, entropy=cfg["entropy"],
                  tol=cfg["tol"], cache_size=cfg["cache"], halfway_tree=cfg["halfway"],
                  levy_area_approximation=cfg["levy"], dt=dt)
        if cfg.get("pool") is not None:
            kw["pool_size"] = cfg["pool"]
        if W is not None:
            kw["W"] = W
            if cfg["levy"] == "none" and H is not None:
                pass
        if H is not None:
            kw["H"] = H
        bmi = torchsde.BrownianInterval(**kw)
        meta["dt_hint"] = dt
        if w == "reverse":
            return torchsde.ReverseBrownian(bmi), bmi, meta
        return bmi, bmi, meta
    if w == "path":
        w0 = torch.randn(shape, dtype=dtype, generator=g)
        pk = {"window_size": 3} if cfg.get("tensor_ends") else {}  # (deprecated, must be harmless)
        bm = torchsde.BrownianPath(t0=cfg["t0"], w0=w0, **pk)
        meta["w0"] = w0
        return bm, bm._interval, meta
    if w == "tree":
        w0 = torch.randn(shape, dtype=dtype, generator=g)
        w1 = None if W is None else w0 + W
        kw = {"pool_size": cfg["pool"]} if cfg.get("pool") is not None else {}
        bm = torchsde.BrownianTree(t0=cfg["t0"], w0=w0, t1=cfg["t1"], w1=w1, entropy=cfg["entropy"], tol=cfg["tol"], **kw)
        meta["w0"] = w0
        if w1 is not None:
            meta["W"] = w1 - w0  # what BrownianTree itself hands to the interval
        return bm, bm._interval, meta
    raise ValueError(w)


def flags_for(cfg, rng=None):
    levy = cfg["levy"]
    if levy == "none":
        return dict(return_U=False, return_A=False)
    if levy == "space-time":
        return dict(return_U=True, return_A=False)
    return dict(return_U=True, return_A=True)


def history(cfg, rng, kind=None, n=None, small=None):
    """A list of (ta, tb) queries in the object's own time frame ([t0, t1]); also returns the typical step."""
    t0, t1 = cfg["t0"], cfg["t1"]
    span = t1 - t0
    rd = grid_round(cfg)
    kind = kind or rng.choice(["random", "random", "sweep", "sweep_srk", "adaptive", "bisect", "mixed"])
    qs = []
    step = span / 50
    if small is None:
        # cache 0/1 without a usable dt hint: every query costs O(tree depth) -> keep histories short
        small = cfg.get("cache", 45) in (0, 1)
    if small and n is None:
        n = {"random": rng.choice([0, 3, 30, 110]), "sweep": rng.choice([20, 60, 130]),
             "sweep_srk": rng.choice([20, 60, 130]), "adaptive": rng.choice([15, 45]),
             "mixed": 120}.get(kind)
    if kind == "random":
        n = n if n is not None else rng.choice([0, 3, 30, 150])
        for _ in range(n):
            a, b = sorted([pick_time(cfg, rng, 0.1), pick_time(cfg, rng, 0.1)])
            qs.append((a, b))
    elif kind in ("sweep", "sweep_srk"):
        n = n if n is not None else rng.choice([20, 130, 400])
        step = span / n
        pts = [rd(t0 + span * i / n) for i in range(n)] + [t1]
        fwd = [(pts[i], pts[i + 1]) for i in range(n) if pts[i] < pts[i + 1]]
        qs = fwd + fwd[::-1]
    elif kind == "adaptive":
        # triples (full, half, half), with occasional rejection (retry shorter from the same start)
        n = n if n is not None else rng.choice([15, 60, 140])
        step = span / n
        t = t0
        h = step
        while t < t1 and len(qs) < 6 * n:
            e = rd(min(t + h, t1))
            if e <= t:
                break
            m = rd(0.5 * (t + e))
            qs += [(t, e), (t, m), (m, e)]
            if rng.random() < 0.3:
                h *= 0.5
            else:
                t = e
                h = min(h * 1.3, span / 4)
    elif kind == "bisect":
        x = rd(rng.uniform(t0, t1))
        lo, hi = t0, t1
        for _ in range(rng.choice([10, 25, 40])):
            mid = rd(0.5 * (lo + hi))
            if not (lo < mid < hi):
                break
            qs.append((lo, mid) if x < mid else (mid, hi))
            if x < mid:
                hi = mid
            else:
                lo = mid
        step = span / 1000
    else:  # mixed: sweep part-way, random probes, continue
        n = n if n is not None else rng.choice([60, 160])
        step = span / n
        pts = [rd(t0 + span * i / n) for i in range(n)] + [t1]
        for i in range(n):
            if pts[i] < pts[i + 1]:
                qs.append((pts[i], pts[i + 1]))
            if rng.random() < 0.1:
                a, b = sorted([rd(rng.uniform(t0, t1)), rd(rng.uniform(t0, t1))])
                qs.append((a, b))
    return kind, qs, step


def to_frame(cfg, a, b):
    """Map an interval in the base frame [t0,t1] to the frame of the wrapper (reverse flips the sign)."""
    if cfg["wrapper"] == "reverse":
        return -b, -a
    return a, b
