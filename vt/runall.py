#!/venv/bin/python
"""Run every check registered in MANIFEST.json (quick or thorough) and print one line per check: id, exit code, summary.
Usage: vt/runall.py [quick|thorough] [ids...]   (env VERIF_SEED, VERIF_REPO honoured)"""
import json
import os
import subprocess
import sys
import time

VERIF = os.path.dirname(os.path.dirname(os.path.abspath(__file__)))
tier = sys.argv[1] if len(sys.argv) > 1 else "quick"
only = set(a.upper() for a in sys.argv[2:])
man = json.load(open(os.path.join(VERIF, "MANIFEST.json")))
bad = 0
for c in man["checks"]:
    pid = c["property_id"]
    if only and pid not in only:
        continue
    cmd = c["quick_cmd"] if tier == "quick" else c["thorough_cmd"]
    t0 = time.time()
    p = subprocess.run(cmd, shell=True, cwd=VERIF, capture_output=True, text=True)
    lines = [l for l in p.stdout.splitlines() if l.startswith(("VIOLATION", "KNOWN-FINDING", "INCONCLUSIVE", pid + " "))
             or "mechanism=" in l]
    print(f"{pid} rc={p.returncode} {time.time() - t0:.0f}s :: " + " | ".join(l[:220] for l in lines[:6]), flush=True)
    bad += p.returncode != 0
print("ALL OK" if not bad else f"{bad} checks non-zero")
sys.exit(1 if bad else 0)
