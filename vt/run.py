#!/venv/bin/python
"""CLI of the runtime-monitoring harness.

    vt/run.py <ID> [quick|thorough]        run a property check (exit 0 held / 1 violation / 2 inconclusive)
    vt/run.py <ID> --replay <file>         re-run the single case stored in a replay file
    vt/run.py --worker <ID> <shard> <out>  (internal) run the cases of one shard

The parent enumerates the cases of the check, deals them over up to 16 worker
processes (plain subprocesses with a timeout, never multiprocessing.Pool), merges
what the monitors observed, classifies violations against known_findings.json and
writes evidence/<ID>.json.
"""
import hashlib
import importlib
import json
import os
import signal
import subprocess
import sys
import time
import traceback

HERE = os.path.dirname(os.path.abspath(__file__))
VERIF = os.path.dirname(HERE)
# Where evidence/, replays/ and .work/ are written. Always /verif for the registered checks; the mutant self-test
# (vt/killmatrix.py) points it at a scratch directory so that runs against a broken scratch copy of the library never
# overwrite the committed evidence.
OUT = os.environ.get("VERIF_OUT") or VERIF
if VERIF not in sys.path:
    sys.path.insert(0, VERIF)

PY = sys.executable


def _load(pid):
    return importlib.import_module(f"vt.checks.{pid.lower()}")


def _jsonable(x):
    import math
    if isinstance(x, dict):
        return {str(k): _jsonable(v) for k, v in x.items()}
    if isinstance(x, (list, tuple)):
        return [_jsonable(v) for v in x]
    if isinstance(x, float):
        if math.isnan(x) or math.isinf(x):
            return repr(x)
        return x
    if isinstance(x, (int, str, bool)) or x is None:
        return x
    try:
        import torch
        if torch.is_tensor(x):
            return _jsonable(x.tolist())
    except Exception:
        pass
    try:
        import numpy as np
        if isinstance(x, np.generic):
            return _jsonable(x.item())
        if isinstance(x, np.ndarray):
            return _jsonable(x.tolist())
    except Exception:
        pass
    return repr(x)


class CaseTimeout(Exception):
    pass


def _alarm(signum, frame):
    raise CaseTimeout()


def run_one(mod, case, repo_root):
    """Run one case under the per-case watchdog; attribute stray exceptions."""
    t0 = time.time()
    limit = int(case.get("timeout", getattr(mod, "CASE_TIMEOUT", 600)))
    signal.signal(signal.SIGALRM, _alarm)
    signal.alarm(limit)
    try:
        res = mod.run_case(case)
    except CaseTimeout:
        res = {"inconclusive": [f"watchdog: case exceeded {limit}s wall clock"]}
    except BaseException as e:  # noqa
        if isinstance(e, KeyboardInterrupt):
            raise
        tb = traceback.extract_tb(e.__traceback__)
        lib_frames = [f for f in tb if os.path.realpath(f.filename).startswith(os.path.realpath(repo_root))]
        txt = "".join(traceback.format_exception(type(e), e, e.__traceback__)[-12:])
        if lib_frames:
            last = lib_frames[-1]
            res = {"violations": [{
                "mechanism": f"exception:{type(e).__name__}@{os.path.basename(last.filename)}:{last.name}",
                "detail": f"{type(e).__name__}: {str(e)[:300]}",
                "traceback": txt[-3000:]}]}
        else:
            res = {"inconclusive": [f"harness error {type(e).__name__}: {str(e)[:300]}"], "traceback": txt[-3000:]}
    finally:
        signal.alarm(0)
    res.setdefault("violations", [])
    res.setdefault("inconclusive", [])
    res.setdefault("counters", {})
    res.setdefault("max", {})
    res.setdefault("nontrivial", False)
    res["key"] = case["key"]
    res["wall_s"] = round(time.time() - t0, 3)
    return res


def worker(pid, shard_file, out_file):
    from vt import env
    env.quiet()
    mod = _load(pid)
    with open(shard_file) as f:
        cases = json.load(f)
    with open(out_file, "w") as out:
        for case in cases:
            res = run_one(mod, case, os.path.join(env.REPO, "torchsde"))
            out.write(json.dumps(_jsonable(res)) + "\n")
            out.flush()
    return 0


def _merge(results):
    counters, maxima = {}, {}
    for r in results:
        for k, v in r.get("counters", {}).items():
            if isinstance(v, (int, float)):
                counters[k] = counters.get(k, 0) + v
        for k, v in r.get("max", {}).items():
            if isinstance(v, (int, float)) and (k not in maxima or v > maxima[k]):
                maxima[k] = v
    return counters, maxima


def _known_findings():
    path = os.path.join(VERIF, "known_findings.json")
    if not os.path.exists(path):
        return []
    with open(path) as f:
        return json.load(f).get("findings", [])


def _is_known(pid, mech, findings):
    for kf in findings:
        if kf.get("status") != "known" or kf.get("property") != pid:
            continue
        m = kf.get("mechanism", "")
        if mech == m or (m.endswith("*") and mech.startswith(m[:-1])):
            return kf
    return None


def main(argv):
    if argv and argv[0] == "--worker":
        return worker(argv[1], argv[2], argv[3])
    if not argv:
        print(__doc__)
        return 2
    pid = argv[0].upper()
    replay = None
    tier = os.environ.get("VERIF_TIER", "quick")
    i = 1
    while i < len(argv):
        if argv[i] == "--replay":
            replay = argv[i + 1]
            i += 2
        else:
            tier = argv[i]
            i += 1
    assert tier in ("quick", "thorough"), tier
    seed = int(os.environ.get("VERIF_SEED", "0"))
    t_start = time.time()

    from vt import env  # imports torchsde from the working tree
    env.quiet()
    mod = _load(pid)

    if replay:
        with open(replay) as f:
            rp = json.load(f)
        res = run_one(mod, rp["case"], os.path.join(env.REPO, "torchsde"))
        print(json.dumps(_jsonable(res), indent=1)[:6000])
        if res["violations"]:
            print(f"VIOLATION property={pid} replay={replay}")
            return 1
        return 2 if res["inconclusive"] else 0

    cases = mod.cases(tier, seed)
    if os.environ.get("VERIF_ONLY"):  # debugging aid: keep the cases whose key starts with this prefix
        cases = [c for c in cases if c["key"].startswith(os.environ["VERIF_ONLY"])]
    keys = [c["key"] for c in cases]
    assert len(set(keys)) == len(keys), "duplicate case keys"
    jobs = int(os.environ.get("VERIF_JOBS", "16"))
    jobs = max(1, min(jobs, len(cases)))
    order = sorted(range(len(cases)), key=lambda j: -float(cases[j].get("cost", 1.0)))
    shards = [[] for _ in range(jobs)]
    loads = [0.0] * jobs
    for j in order:  # longest-processing-time-first
        k = loads.index(min(loads))
        shards[k].append(cases[j])
        loads[k] += float(cases[j].get("cost", 1.0))

    work = os.path.join(OUT, ".work", f"{pid}-{os.getpid()}")
    os.makedirs(work, exist_ok=True)
    procs = []
    for k, sh in enumerate(shards):
        sf, of = os.path.join(work, f"shard{k}.json"), os.path.join(work, f"out{k}.jsonl")
        with open(sf, "w") as f:
            json.dump(sh, f)
        lf = open(os.path.join(work, f"log{k}.txt"), "w")
        procs.append((subprocess.Popen([PY, os.path.abspath(__file__), "--worker", pid, sf, of],
                                       stdout=lf, stderr=subprocess.STDOUT, cwd=VERIF), of, lf, sh))
    budget = float(getattr(mod, "WALL_BUDGET", {}).get(tier, 3600 if tier == "quick" else 6 * 3600))
    deadline = time.time() + budget
    inconclusive = []
    for p, of, lf, sh in procs:
        try:
            p.wait(timeout=max(1.0, deadline - time.time()))
        except subprocess.TimeoutExpired:
            p.kill()
            p.wait()
            inconclusive.append(f"watchdog: a worker exceeded the {budget:.0f}s wall budget")
        lf.close()
    results = []
    for k, (p, of, lf, sh) in enumerate(procs):
        got = []
        if os.path.exists(of):
            with open(of) as f:
                for line in f:
                    try:
                        got.append(json.loads(line))
                    except Exception:
                        pass
        results.extend(got)
        if len(got) < len(sh):
            tail = ""
            try:
                with open(os.path.join(work, f"log{k}.txt")) as f:
                    tail = f.read()[-1500:]
            except Exception:
                pass
            missing = [c["key"] for c in sh][len(got):]
            inconclusive.append(f"worker {k} died (rc={p.returncode}) before finishing case {missing[0]!r} "
                                f"({len(missing)} cases not run): {tail}")

    case_by_key = {c["key"]: c for c in cases}
    counters, maxima = _merge(results)
    violations = []
    for r in results:
        for v in r["violations"]:
            v = dict(v)
            v["case_key"] = r["key"]
            violations.append(v)
        for msg in r["inconclusive"]:
            inconclusive.append(f"{r['key']}: {msg}")
            if r.get("traceback"):
                inconclusive.append(r["traceback"])
    fin = getattr(mod, "finalize", None)
    if fin is not None:
        extra = fin(results, counters, maxima, tier) or {}
        for v in extra.get("violations", []):
            violations.append(v)
        inconclusive.extend(extra.get("inconclusive", []))
    for name in getattr(mod, "REQUIRED_COUNTERS", []):
        if counters.get(name, 0) <= 0:
            inconclusive.append(f"deciding monitor never reached: counter {name!r} is zero")

    findings = _known_findings()
    new, known_hit = [], {}
    for v in violations:
        kf = _is_known(pid, v["mechanism"], findings)
        if kf is not None:
            known_hit.setdefault(kf["mechanism"], (kf, []))[1].append(v)
        else:
            new.append(v)
    for mech, (kf, vs) in sorted(known_hit.items()):
        print(f"KNOWN-FINDING: property={pid} {kf.get('what', mech)} [{len(vs)} observation(s)]")

    os.makedirs(os.path.join(OUT, "replays"), exist_ok=True)
    seen_mech = {}
    for v in new:
        seen_mech.setdefault(v["mechanism"], []).append(v)
    replay_paths = []
    for mech, vs in sorted(seen_mech.items()):
        v = vs[0]
        case = case_by_key.get(v.get("case_key"), {"key": v.get("case_key")})
        h = hashlib.sha1((pid + mech + str(v.get("case_key"))).encode()).hexdigest()[:10]
        path = os.path.join(OUT, "replays", f"{pid}-{h}.json")
        with open(path, "w") as f:
            json.dump(_jsonable({"property": pid, "tier": tier, "seed": seed, "case": case, "violation": v,
                                 "same_mechanism_cases": [x.get("case_key") for x in vs][:50]}), f, indent=1)
        replay_paths.append(path)
        print(f"VIOLATION property={pid} replay={path}")
        print(f"  mechanism={mech} cases={len(vs)} first={v.get('case_key')} detail={str(v.get('detail'))[:400]}")

    nontrivial_keys = sorted({r["key"] for r in results if r.get("nontrivial")})
    samples = []
    for r in results:
        if r.get("nontrivial") and len(samples) < 4:
            c = dict(case_by_key[r["key"]])
            c["observed"] = r.get("sample", {k: v for k, v in r.get("counters", {}).items()})
            samples.append(c)
    if not samples and cases:
        samples = [cases[0]]
    wall = time.time() - t_start
    ev = {
        "property_id": pid,
        "tier": tier,
        "seed": seed,
        "level": getattr(mod, "LEVEL", "exploration"),
        "coverage": {
            "evaluations": len(results),
            "distinct_nontrivial": len(nontrivial_keys),
            "rule": getattr(mod, "RULE", ""),
            "samples": samples,
            "exhaustive": bool(getattr(mod, "EXHAUSTIVE", False)),
            "monitor_counters": counters,
            "max_observed": maxima,
            "thresholds": getattr(mod, "THRESHOLDS", {}),
            "cases_enumerated": len(cases),
            "workers": jobs,
            "torchsde_file": env.TORCHSDE_FILE,
            "verdict": "violated" if new else ("inconclusive" if inconclusive else "held"),
            "inconclusive_reasons": inconclusive[:20],
            "known_findings_reported": sorted(known_hit),
            "violation_mechanisms": sorted(seen_mech),
        },
        "assumptions": getattr(mod, "ASSUMPTIONS", []),
        "wall_s": round(wall, 2),
        "violations": len(new),
    }
    os.makedirs(os.path.join(OUT, "evidence"), exist_ok=True)
    with open(os.path.join(OUT, "evidence", f"{pid}.json"), "w") as f:
        json.dump(_jsonable(ev), f, indent=1)

    import shutil
    shutil.rmtree(work, ignore_errors=True)
    try:
        os.rmdir(os.path.join(OUT, ".work"))
    except OSError:
        pass

    print(f"{pid} {tier} seed={seed}: cases={len(results)}/{len(cases)} nontrivial={len(nontrivial_keys)} "
          f"violations={len(new)} known={sum(len(v[1]) for v in known_hit.values())} wall={wall:.1f}s")
    if os.environ.get("VERIF_DUMP"):
        with open(os.environ["VERIF_DUMP"], "w") as f:
            json.dump(_jsonable(results), f)
    if os.environ.get("VERIF_DEBUG"):
        for r in sorted(results, key=lambda r: -r["wall_s"])[:12]:
            print("  slow:", r["key"], r["wall_s"], json.dumps(case_by_key[r["key"]])[:300])
    print("  counters: " + json.dumps(_jsonable(counters), sort_keys=True)[:1500])
    print("  max: " + json.dumps(_jsonable(maxima), sort_keys=True)[:1500])
    if new:
        for msg in inconclusive[:5]:
            print(f"  (also inconclusive: {msg[:600]})")
        return 1
    if inconclusive:
        for msg in inconclusive[:10]:
            print(f"INCONCLUSIVE property={pid} reason={msg[:1500]}")
        return 2
    if len(nontrivial_keys) < 2:
        print(f"INCONCLUSIVE property={pid} reason=fewer than 2 non-trivial cases observed")
        return 2
    return 0


if __name__ == "__main__":
    sys.exit(main(sys.argv[1:]))
