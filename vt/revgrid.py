"""Helpers shared by C10 / C15: classification of the observed forward / backward step grids and a Brownian proxy
that snaps query times to the forward grid (so that both passes see bit-identical increments on decimal grids)."""
import bisect

import torch

from torchsde._brownian import brownian_base


class SnapBrownian(brownian_base.BaseBrownian):
    """Query times within `tol` of a grid time are replaced by that grid time (sign-aware: grid is in forward time)."""

    def __init__(self, base, grid, tol):
        super().__init__()
        self.base = base
        self.grid = sorted(set(float(g) for g in grid))
        self.tol = tol
        self.snapped = 0

    def _snap(self, t):
        t = float(t)
        i = bisect.bisect_left(self.grid, t)
        best = None
        for j in (i - 1, i):
            if 0 <= j < len(self.grid) and abs(self.grid[j] - t) <= self.tol:
                if best is None or abs(self.grid[j] - t) < abs(best - t):
                    best = self.grid[j]
        if best is not None and best != t:
            self.snapped += 1
            return best
        return t

    def __call__(self, ta, tb=None, return_U=False, return_A=False):
        return self.base(self._snap(ta), None if tb is None else self._snap(tb), return_U=return_U, return_A=return_A)

    def __repr__(self):
        return "SnapBrownian()"

    dtype = property(lambda self: self.base.dtype)
    device = property(lambda self: self.base.device)
    shape = property(lambda self: self.base.shape)
    levy_area_approximation = property(lambda self: self.base.levy_area_approximation)


def classify(forward_steps, backward_steps_mirrored, dt):
    """forward_steps / backward_steps_mirrored: lists of (t0, t1) in forward time, ascending.

    A: identical floats.  B: same number of steps, every end point within 1e-9*dt.  C: anything else (e.g. one pass
    takes a final step shorter than 1e-6*dt that the other does not)."""
    if forward_steps == backward_steps_mirrored:
        return "A"
    if len(forward_steps) == len(backward_steps_mirrored) and all(
            abs(a0 - b0) <= 1e-9 * dt and abs(a1 - b1) <= 1e-9 * dt
            for (a0, a1), (b0, b1) in zip(forward_steps, backward_steps_mirrored)):
        return "B"
    return "C"


def has_sliver(steps, dt):
    return any((b - a) < 1e-6 * dt for a, b in steps)
