"""C08 - backprop through sdeint equals the derivative of the numerical solution (path held fixed).

Oracle: directional central finite differences (float64, eps=1e-6, random direction in (y0, all parameters)) of a
random linear functional of ALL outputs, against autograd. Adaptive runs: the nominal run's controller decisions
(error estimates and proposed step sizes) are recorded at the compute_error / update_step_size hooks and replayed
in the +-eps runs, so all three runs take literally the same accept/reject decisions and step sizes. Whether the
error control ran with autograd enabled is recorded as an observation (counter), not a verdict.
"""
import copy
import random

import torch

from .. import probes, zoo

ID = "C08"
LEVEL = "exploration"
RULE = ("case = (solver x noise cell, fixed|adaptive, ts/dt layout, SDE seed); non-trivial = >= 3 steps and the "
        "directional derivative is > 1e-6 in magnitude (adaptive: additionally >= 1 rejected trial replayed); "
        "distinct = distinct case keys")
ASSUMPTIONS = ["float64 central differences eps=1e-6: truncation+rounding error ~1e-9 relative; threshold 1e-6",
               "adaptive: 'away from accept/reject boundaries' is realised by freezing the recorded schedule"]
REQUIRED_COUNTERS = ["float32_parameter_modules", "fixed_runs", "adaptive_runs", "adaptive_rejections_replayed", "error_control_calls",
                     "unaligned_outputs", "wrt_params_only", "wrt_y0_only", "wrt_both", "plain_object_sde", "logqp_losses", "chunked_resumed_solves"]
THRESHOLDS = {"rel": 1e-6}


def cases(tier, seed):
    reps = 2 if tier == "quick" else 100
    out = []
    for ci, cell in enumerate(zoo.matrix()):
        for r in range(reps):
            out.append({"key": f"{zoo.cell_name(cell)}-fix{r}", "cell": cell, "adaptive": False,
                        "rseed": hash((seed, ci, r)) % (2 ** 31), "cost": 2})
        for r in range(max(1, reps // 2)):
            out.append({"key": f"{zoo.cell_name(cell)}-ada{r}", "cell": cell, "adaptive": True,
                        "rseed": hash((seed, ci, 100 + r)) % (2 ** 31), "cost": 6})
    return out


def run_case(case):
    import torchsde
    cell = case["cell"]
    rng = random.Random(case["rseed"])
    viol, cnt, mx = [], {}, {}
    d, m, B = rng.choice([2, 3]), rng.choice([2, 3]), rng.choice([1, 2, 3])
    sde = zoo.cell_sde(cell, d=d, m=m, seed=rng.randrange(10 ** 6), gscale=rng.choice([0.5, 0.8]))
    t0 = rng.choice([0.0, 0.7])
    layout = rng.choice(["two", "unaligned", "many"])
    if layout == "two":
        tsl = [t0, t0 + 0.6]
    elif layout == "unaligned":
        tsl = [t0, t0 + 0.137, t0 + 0.41, t0 + 0.6]
        cnt["unaligned_outputs"] = 1
    else:
        tsl = [t0 + 0.1 * i for i in range(7)]
    ts = torch.tensor(tsl)
    dt = rng.choice([0.1, 0.05, 0.03])
    entropy = rng.randrange(1, 10 ** 9)
    levy = zoo.levy_for(cell["method"])
    gen = torch.Generator().manual_seed(case["rseed"])
    y0v = torch.randn(B, d, generator=gen)
    w = torch.randn(len(tsl), B, d, generator=gen)
    wq = torch.randn(len(tsl) - 1, B, generator=gen)
    params = list(sde.parameters())
    # who is differentiated: y0 and the parameters / the parameters only (y0 a plain constant tensor) / y0 only;
    # and how the SDE is handed over: the nn.Module itself or a plain object (not an nn.Module) with the same f and g,
    # whose differentiable inputs are therefore not discoverable through .parameters()
    wrt = rng.choice(["both", "both", "params_only", "params_only", "y0_only"])
    plain = rng.random() < 0.3
    # logqp=True: the returned log-ratio is part of the returned numerical solution and is differentiated too
    # (through stable_division / the pseudo-inverse of g); the loss then weights both outputs
    logqp = rng.random() < 0.35
    chunked = (cell["method"] == "reversible_heun" and not case["adaptive"] and len(tsl) > 2 and rng.random() < 0.85)
    if chunked:
        logqp = False
    cut = rng.randrange(1, len(tsl) - 1) if chunked else None
    cnt["chunked_resumed_solves"] = int(chunked)
    cnt["logqp_losses"] = int(logqp)
    if logqp:
        sde = zoo.Conditioned(sde)
    cnt["wrt_" + wrt] = 1
    cnt["plain_object_sde"] = int(plain)
    dirs = [torch.randn(B, d, generator=gen)] + [torch.randn(p.shape, generator=gen) for p in params]
    if wrt == "params_only":
        dirs[0] = torch.zeros(B, d)
    if wrt == "y0_only":
        dirs = [dirs[0]] + [torch.zeros(p.shape) for p in params]
    akw = dict(adaptive=True, rtol=rng.choice([1e-2, 1e-3]), atol=rng.choice([1e-3, 1e-4]), dt_min=1e-5) \
        if case["adaptive"] else {}

    def loss(s, y0, probe):
        msize = s.m + (1 if (logqp and s.noise_type == "diagonal") else 0)
        bm = torchsde.BrownianInterval(t0=tsl[0], t1=tsl[-1], size=(B, msize), entropy=entropy,
                                       levy_area_approximation=levy)
        obj = zoo.Plain(s.f, s.g, s.noise_type, s.sde_type, h=s.h) if plain else s
        with probe.installed():
            if chunked:
                # checkpoint-restart: the solve is split at an output time and resumed from the returned extra solver
                # state; the derivative of the whole program flows through the carried state as well
                ys1, ex = zoo.solve(cell, obj, y0, ts[:cut + 1], dt, bm=bm, extra=True)
                ys2, ex2 = zoo.solve(cell, obj, ys1[-1], ts[cut:], dt, bm=bm, extra=True, extra_solver_state=ex)
                return (torch.cat([ys1, ys2[1:]], 0) * w).sum() + sum((e * e).sum() for e in ex2) * 0.1
            if logqp:
                ys, lq = zoo.solve(cell, obj, y0, ts, dt, bm=bm, logqp=True, **akw)
                return (ys * w).sum() + (lq * wq).sum()
            ys = zoo.solve(cell, obj, y0, ts, dt, bm=bm, **akw)
        return (ys * w).sum()

    nominal = probes.SolverProbe(keep_states=False)
    y0 = y0v.clone().requires_grad_(wrt != "params_only")
    L = loss(sde, y0, nominal)
    ctx0 = f"cell={zoo.cell_name(cell)} adaptive={case['adaptive']} wrt={wrt} plain_object={plain} logqp={logqp} chunked={chunked}"
    if not L.requires_grad:
        return {"violations": [{"mechanism": "solution_not_attached_to_autograd_graph",
                                "detail": f"sdeint output does not require grad although inputs do: {ctx0}"}],
                "counters": cnt}
    wanted = ([y0] if wrt != "params_only" else []) + (params if wrt != "y0_only" else [])
    gl = list(torch.autograd.grad(L, wanted, allow_unused=True))
    grads = ([gl.pop(0)] if wrt != "params_only" else [None]) + (gl if wrt != "y0_only" else [None] * len(params))
    an = sum(float((g * v).sum()) for g, v in zip(grads, dirs) if g is not None)
    rec_err = [e["returned"] for e in nominal.errors]
    rec_upd = [(u["new_step"]) for u in nominal.updates]
    # the update hook must return (step, ratio): keep the real ratio sequence by recording raw returns
    raw = {"upd": []}

    class Replay(probes.SolverProbe):
        pass

    def shifted(sign, eps=1e-6):
        s2 = copy.deepcopy(sde)
        with torch.no_grad():
            for p, v in zip(s2.parameters(), dirs[1:]):
                p.add_(sign * eps * v)
        pr = probes.SolverProbe(keep_states=False,
                                error_script=(lambda i, real: rec_err[i]) if case["adaptive"] else None,
                                step_size_script=((lambda i, ns, nr: (rec_upd[i], nr)) if case["adaptive"] else None))
        with torch.no_grad():
            val = float(loss(s2, (y0v + sign * eps * dirs[0]), pr))
        if case["adaptive"] and (len(pr.errors) != len(rec_err) or len(pr.updates) != len(rec_upd)):
            raise RuntimeError("replayed schedule has a different length")
        return val, pr

    ctx = f"{ctx0} ts={tsl} dt={dt} B={B} d={d} m={sde.m}"
    try:
        (lp, prp), (lm, prm) = shifted(+1), shifted(-1)
    except (RuntimeError, IndexError) as e:
        if "replayed schedule" in str(e) or isinstance(e, IndexError):
            return {"inconclusive": [f"schedule replay diverged: {e} {ctx}"]}
        raise
    fd = (lp - lm) / 2e-6
    rel = abs(an - fd) / max(abs(fd), 1e-3)
    mx["rel_err"] = rel
    if not rel <= THRESHOLDS["rel"]:
        # Is the finite difference itself trustworthy here? Repeat it at eps = 1e-5 and 1e-7. A wrong gradient disagrees
        # with all three; an ill-conditioned functional (e.g. logqp through the pseudo-inverse of a nearly singular
        # diffusion matrix: values ~1e8) makes the three differences disagree among themselves - that is a limit of
        # the oracle, counted and skipped, never charged to the library.
        fds = [fd]
        for e2 in (1e-5, 1e-7):
            (a2, _), (b2, _) = shifted(+1, e2), shifted(-1, e2)
            fds.append((a2 - b2) / (2 * e2))
        rels = [abs(an - x) / max(abs(x), 1e-3) for x in fds]
        spread = (max(fds) - min(fds)) / max(abs(fd), 1e-3)
        if min(rels) <= THRESHOLDS["rel"] or spread > 0.1 * min(rels):
            cnt["fd_oracle_unreliable_skipped"] = 1
            return {"violations": [], "counters": cnt, "max": {}, "nontrivial": False,
                    "sample": {"cell": zoo.cell_name(cell), "skipped": "finite difference not reliable", "fds": fds,
                               "autograd": an}}
        viol.append({"mechanism": f"backprop_differs_from_finite_difference:{'adaptive' if case['adaptive'] else 'fixed'}"
                                  f"{':logqp' if logqp else ''}",
                     "detail": f"autograd {an:.10g} vs FD {fd:.10g} rel {rel:.3e} {ctx}"})
    nsteps = len(nominal.steps)
    if case["adaptive"]:
        cnt["adaptive_runs"] = 1
        nrej = sum(1 for e in rec_err if e > 1)
        cnt["adaptive_rejections_replayed"] = nrej
        cnt["error_control_calls"] = len(rec_err)
        ge = nominal.grad_enabled_in_error
        # Observation only (not a verdict): the property is about the gradient values, which the finite-difference
        # oracle above decides. A controller that ran with autograd enabled but still returned plain floats leaves the
        # gradients right; one that leaks a graph into the step size shows up as autograd != FD on the frozen schedule.
        cnt["error_control_calls_with_grad_enabled"] = ge
        nt = nsteps >= 3 and abs(fd) > 1e-6 and nrej >= 1
    else:
        cnt["fixed_runs"] = 1
        nt = nsteps >= 3 and abs(fd) > 1e-6
    # mixed precision the library accepts: a module whose parameters are float32, state and Brownian motion float64 (the
    # generated SDEs promote their parameters to the state's dtype). The solution is a function of the CALLER's
    # parameters: their gradients must exist and equal those of the same module converted to float64 (float32 -> float64
    # is exact, and both runs compute in float64), up to the float32 rounding of the returned gradient tensors.
    mrng = random.Random(case["rseed"] + 17)
    if not case["adaptive"] and not plain and not logqp and not chunked and wrt != "y0_only" and mrng.random() < 0.5:
        s32 = copy.deepcopy(sde).float()
        s64 = copy.deepcopy(s32).double()
        res = []
        for sx in (s32, s64):
            yx = y0v.clone().requires_grad_(True)
            Lx = loss(sx, yx, probes.SolverProbe(keep_states=False))
            px = list(sx.parameters())
            res.append((Lx, torch.autograd.grad(Lx, [yx] + px, allow_unused=True)))
        cnt["float32_parameter_modules"] = 1
        (L32, g32), (L64, g64) = res
        if not torch.equal(L32.detach(), L64.detach()):
            viol.append({"mechanism": "float32_parameters:solution_differs_from_float64_copy",
                         "detail": f"{float(L32)!r} vs {float(L64)!r} {ctx0}"})
        for i_, (ga, gb) in enumerate(zip(g32, g64)):
            if (ga is None) != (gb is None):
                viol.append({"mechanism": "float32_parameters:gradient_missing",
                             "detail": f"input {i_} ({'y0' if i_ == 0 else 'parameter'}): float32 module grad is "
                                       f"{'None' if ga is None else 'set'}, float64 copy grad is "
                                       f"{'None' if gb is None else 'set'} {ctx0}"})
                break
            if ga is not None:
                e_ = float((ga.double() - gb).abs().max() / (1e-12 + gb.abs().max()))
                mx["float32_parameter_grad_rel"] = max(mx.get("float32_parameter_grad_rel", 0.0), e_)
                if e_ > 1e-5:
                    viol.append({"mechanism": "float32_parameters:gradient_differs_from_float64_copy",
                                 "detail": f"input {i_} rel {e_:.3e} {ctx0}"})
                    break
    return {"violations": viol, "counters": cnt, "max": mx, "nontrivial": nt,
            "sample": {"cell": zoo.cell_name(cell), "adaptive": case["adaptive"], "steps": nsteps,
                       "rejected": cnt.get("adaptive_rejections_replayed"), "autograd": an, "fd": fd, "rel": rel}}
