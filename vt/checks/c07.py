"""C07 - Brownian objects answer every valid query: no crash, bounded stack, bounded cache.

Monitors (invariants at hooks): DepthProbe (max Python call depth during the workload), a tight recursion limit
(linear recursion fails fast), a logical-operation budget per public call on the tree primitives (non-termination
is decided on logical steps, the wall-clock watchdog only yields 'inconclusive'), the LRU post-condition
len <= max_size, and "any exception out of an in-range query is a violation".
Workloads: solver-shaped sweeps of tens of thousands of steps forward then backward, all cache sizes, right and wrong
dt hints, 1-ulp sliver queries at the end of the warm-up, sub-tolerance queries, sdeint with its default Brownian
motion, BrownianTree/BrownianPath, and random configurations x random (also off-grid) histories.
"""
import random
import sys
import warnings

import torch

from .. import ride  # noqa: E402
from .. import bmgen, probes, zoo

ID = "C07"
LEVEL = "exploration"
RULE = ("case = a stress scenario (sweep length, cache size, dt hint, tolerance, wrapper) or a random "
        "(configuration, history); non-trivial = >= 100 in-range queries answered with the monitors armed, or a "
        "sub-tolerance / sliver query answered; distinct = distinct case keys")
ASSUMPTIONS = [
    "non-termination is decided by a logical bound of 3e6 tree operations per public call or constructor (legitimate ones "
    "observed need < 2.2e5: building the dependency tree for a dt hint with cache_size=0); a wall-clock watchdog firing is reported as inconclusive, not as a violation",
    "stack depth 'does not grow': depth at 8n queries <= depth at n queries + 8 frames, and <= 150 frames absolute "
    "(dyadic mode recursion is bounded by log2(span/tol), not by the number of queries)",
]
REQUIRED_COUNTERS = ["ride_c07_cache_insertions", "queries", "sweep_cases", "subtol_queries", "same_gridpoint_queries", "sliver_queries", "sdeint_default_bm_runs",
                     "cache0_queries", "depth_pairs", "evictions", "refinements"]
OP_BUDGET = 3_000_000
CASE_TIMEOUT = 1500
WALL_BUDGET = {"quick": 1800, "thorough": 4 * 3600}


def cases(tier, seed):
    q = tier == "quick"
    N = 24000 if q else 200000
    out = []

    def add(key, **kw):
        kw["key"] = key
        out.append(kw)

    # 1. long default sweeps; depth at n vs 8n
    add("sweep_default", kind="sweep", n=N, cache=45, dthint="none", levy="none", depth_pair=True, cost=30)
    add("sweep_default_srk", kind="sweep", n=N // 2, cache=45, dthint="none", levy="space-time", depth_pair=True,
        cost=20)
    add("sweep_default_foster", kind="sweep", n=N // 4, cache=45, dthint="none", levy="foster", shape=[2, 2],
        depth_pair=True, cost=20)
    add("sweep_cacheNone", kind="sweep", n=N, cache=None, dthint="none", levy="none", depth_pair=True, cost=30)
    add("sweep_right_hint", kind="sweep", n=N, cache=45, dthint="right", levy="none", depth_pair=True, cost=25)
    add("sweep_right_hint_cache1", kind="sweep", n=N // 4, cache=1, dthint="right", levy="space-time", cost=25)
    add("sweep_right_hint_cache0", kind="sweep", n=N // 8, cache=0, dthint="right", levy="none", cost=25)
    add("sweep_big_hint", kind="sweep", n=3000, cache=45, dthint="big", levy="none", cost=20)
    add("sweep_small_hint", kind="sweep", n=2000, cache=45, dthint="small", levy="none", cost=15)
    # dt hint 100x / 1000x coarser than the real step: the tree below each hinted piece is a chain thousands deep,
    # and the backward sweep walks it with a cold cache
    add("sweep_huge_hint", kind="sweep", n=6000, cache=45, dthint="huge", levy="none", depth_pair=True, cost=25)
    add("sweep_huge_hint_srk", kind="sweep", n=3000, cache=5, dthint="huge", levy="space-time", cost=25)
    add("sweep_enormous_hint_cacheNone", kind="sweep", n=5000, cache=None, dthint="enormous", levy="none", cost=20)
    # no hint, step size collapsing mid-history (coarse warm-up, then 100x finer steps), forward then backward
    add("sweep_step_collapse", kind="collapse", n=5000, cache=45, levy="none", depth_pair=True, cost=25)
    add("sweep_step_collapse_cache2", kind="collapse", n=1500, cache=2, levy="space-time", cost=25)
    add("sweep_cache0_nohint", kind="sweep", n=700, cache=0, dthint="none", levy="none", depth_pair=True, cost=25)
    add("sweep_cache1_nohint", kind="sweep", n=700, cache=1, dthint="none", levy="space-time", depth_pair=True,
        cost=25)
    add("sweep_cache2_nohint", kind="sweep", n=1500, cache=2, dthint="none", levy="davie", shape=[2, 2], cost=25)
    add("sweep_tol_nohalf", kind="sweep", n=4000, cache=45, dthint="none", levy="none", tol=1e-6, cost=10)
    add("sweep_halfway", kind="sweep", n=2000, cache=45, dthint=None, levy="none", tol=1e-5, halfway=True,
        depth_pair=True, cost=25)
    add("sweep_path", kind="sweep_path", n=N // 2, depth_pair=True, cost=25)
    add("sweep_tree", kind="sweep_tree", n=1000, cost=20)
    add("adaptive_default", kind="adaptive_sweep", n=N // 4, cache=45, levy="none", cost=20)
    for t0 in (0.0, -3.0, 17.5):
        add(f"sweep_t0_{t0}", kind="sweep", n=6000, cache=45, dthint="none", levy="none", t0=t0, span=2.5, cost=8)
    # 2. slivers at the end of the warm-up (query 101 is tiny)
    for j, (T, dt) in enumerate([(10.0, 0.1), (1.0, 0.01), (5.0, 0.05), (3.0, 0.03), (0.7, 0.007)]):
        add(f"sliver_sdeint{j}", kind="sliver_sdeint", T=T, dt=dt, cost=3)
        add(f"sliver_direct{j}", kind="sliver_direct", T=T, dt=dt, cost=3)
    # 3. sub-tolerance queries
    i = 0
    for halfway in (True, False):
        for tol in (1e-2, 1e-3, 1e-6, 5e-4, 2.5e-3, 3e-6):
            for where in ("start", "middle", "end", "boundary"):
                add(f"subtol{i}", kind="subtol", halfway=halfway, tol=tol, where=where, cost=1)
                i += 1
    # 4. tol > 0 with dt*cache*0.8 < tol, cache 0 with dt hint
    i = 0
    for cache in (0, 1, 2):
        for tol in (1e-2, 1e-3):
            for dth in (1e-3, 1e-4, 0.2):
                add(f"finehint{i}", kind="finehint", cache=cache, tol=tol, dthint=dth, cost=2)
                i += 1
    # 5. sdeint with default / tree / path Brownian motions
    add("sdeint_default_euler", kind="sdeint_long", method="euler", n=N, cost=30)
    add("sdeint_default_srk", kind="sdeint_long", method="srk", n=N // 6, cost=30)
    add("sdeint_default_midpoint", kind="sdeint_long", method="midpoint", n=N // 2, cost=30)
    add("sdeint_default_adaptive", kind="sdeint_adaptive", cost=10)
    for j, (dt, tol) in enumerate([(0.1, 1e-6), (0.01, 1e-6), (0.25, 1e-6), (0.003, 1e-6), (6e-4, 5e-4), (0.01, 2.5e-3),
                                   (0.0007, 1e-3)]):
        add(f"sdeint_tree{j}", kind="sdeint_tree", dt=dt, tol=tol, cost=5)
    add("sdeint_adjoint_default", kind="sdeint_adjoint_long", n=3000, cost=30)
    # 6. random configurations x random histories incl. off-grid and sub-tolerance queries
    nr = 200 if q else 3000
    for i in range(nr):
        crng = random.Random(f"C07-{seed}-{i}")
        wr = crng.choice(["interval", "interval", "interval", "tree", "path", "reverse"])
        add(f"r{i}", kind="random", cfg=bmgen.random_config(crng, wrappers=(wr,), offgrid_ends_ok=True), hseed=crng.randrange(10 ** 9),
            cost=1)
    out += ride.cases_for("C07", tier, seed)  # the repository's own tests under passive monitors
    return out


class Armed:
    """All C07 monitors installed around a workload."""

    def __init__(self, depth=True):
        self.tp = probes.TreeProbe(op_budget=OP_BUDGET)
        self.dp = probes.DepthProbe() if depth else None
        self.viol = []
        self.cnt = {}
        self.mx = {}

    def call(self, fn, *a, **k):
        self.tp.begin_call()
        self.cnt["queries"] = self.cnt.get("queries", 0) + 1
        return fn(*a, **k)

    def finish(self):
        tp = self.tp
        tp.begin_call()
        self.cnt["evictions"] = tp.n_evict
        self.cnt["refinements"] = tp.n_dep_tree
        self.mx["max_ops_per_call"] = tp.max_ops_call
        self.mx["max_cache_len"] = tp.max_cache_len
        if tp.cache_overflow:
            self.viol.append({"mechanism": "cache_overflow", "detail": str(tp.cache_overflow[:3])})


def _guard(armed, label, fn):
    """Run fn; any exception from an in-range query is a violation of C07."""
    try:
        with probes.tight_recursion_limit(450):
            return fn()
    except probes.OpBudgetExceeded as e:
        armed.viol.append({"mechanism": f"non_termination:{label}", "detail": str(e)})
    except RecursionError as e:
        armed.viol.append({"mechanism": f"RecursionError:{label}", "detail": _where(e)})
    except MemoryError as e:
        armed.viol.append({"mechanism": f"MemoryError:{label}", "detail": _where(e)})
    except Exception as e:  # noqa
        armed.viol.append({"mechanism": f"{type(e).__name__}:{label}", "detail": f"{str(e)[:200]} @ {_where(e)}"})
    return None


def _where(e):
    import traceback
    tb = traceback.extract_tb(e.__traceback__)
    lib = [f for f in tb if "torchsde" in f.filename]
    f = (lib or tb)[-1]
    return f"{f.filename.split('/')[-1]}:{f.name}:{f.lineno}"


def _sweep(armed, bm, pts, flags, backward=True):
    n = len(pts) - 1
    for i in range(n):
        armed.call(bm, pts[i], pts[i + 1], **flags)
    if backward:
        for i in range(n - 1, -1, -1):
            armed.call(bm, pts[i], pts[i + 1], **flags)


def _mk(case, n, t0=None):
    import torchsde
    t0 = case.get("t0", 0.0) if t0 is None else t0
    span = case.get("span", 1.0)
    step = span / n
    dth = case.get("dthint")
    dt = {None: None, "none": None, "right": step, "big": min(10 * step, span), "small": step / 10,
          "huge": min(100 * step, span), "enormous": min(1000 * step, span)}[dth]
    shape = tuple(case.get("shape", [2]))
    kw = dict(t0=t0, t1=t0 + span, size=shape, entropy=1234 + n, cache_size=case.get("cache", 45),
              levy_area_approximation=case.get("levy", "none"), tol=case.get("tol", 0.0),
              halfway_tree=case.get("halfway", False), dt=dt)
    return torchsde.BrownianInterval(**kw), t0, span


def run_case(case):
    if case.get("kind") == "ride":
        return ride.run_case(case)
    import torchsde
    kind = case["kind"]
    armed = Armed()
    cnt, viol, mx = armed.cnt, armed.viol, armed.mx
    sample = {}

    def depth_of(workload):
        dp = probes.DepthProbe()
        with dp.installed():
            workload()
        return dp.max_depth

    with armed.tp.installed():
        if kind in ("sweep", "sweep_path", "sweep_tree", "adaptive_sweep", "collapse"):
            n = case["n"]
            flags = bmgen.flags_for({"levy": case.get("levy", "none")})

            def make_and_sweep(nn):
                def wl():
                    if kind == "sweep_path":
                        bm = torchsde.BrownianPath(t0=0.0, w0=torch.zeros(2))
                        t0, span = 0.0, 1.0
                    elif kind == "sweep_tree":
                        bm = torchsde.BrownianTree(t0=0.0, w0=torch.zeros(2), t1=1.0, entropy=7, tol=1e-6)
                        t0, span = 0.0, 1.0
                    else:
                        bm, t0, span = _mk(case, nn)
                    if case.get("tol", 0.0) or kind == "sweep_tree":
                        nd = bmgen.ndigits(case.get("tol") or 1e-6)
                        pts = sorted({round(t0 + span * i / nn, nd) for i in range(nn + 1)})
                    else:
                        pts = [t0 + span * i / nn for i in range(nn)] + [t0 + span]
                    if kind == "collapse":
                        # 120 coarse steps over the first 60% (so the inferred tree is coarse), then nn fine ones
                        c = [t0 + 0.6 * span * i / 120 for i in range(121)]
                        f = [c[-1] + 0.4 * span * i / nn for i in range(1, nn)] + [t0 + span]
                        pts = c + f
                    if kind == "adaptive_sweep":
                        rng = random.Random(nn)
                        t, h = t0, span / nn
                        while t < t0 + span:
                            e = min(t + h, t0 + span)
                            m = 0.5 * (t + e)
                            for (a, b) in ((t, e), (t, m), (m, e)):
                                if a < b:
                                    armed.call(bm, a, b)
                            if rng.random() < 0.25:
                                h *= 0.6
                            else:
                                t, h = e, min(h * 1.2, 4 * span / nn)
                    else:
                        _sweep(armed, bm, pts, flags)
                return wl

            if case.get("depth_pair"):
                d1 = _guard(armed, f"{case['key']}:n/8", lambda: depth_of(make_and_sweep(max(n // 8, 50))))
                d2 = _guard(armed, case["key"], lambda: depth_of(make_and_sweep(n)))
                if d1 is not None and d2 is not None:
                    cnt["depth_pairs"] = 1
                    mx["stack_depth"] = d2
                    mx["stack_depth_growth_n_to_8n"] = d2 - d1
                    sample.update(depth_at_n_over_8=d1, depth_at_n=d2)
                    if d2 > d1 + 8 or d2 > 150:
                        viol.append({"mechanism": "stack_depth_grows_with_queries",
                                     "detail": f"depth {d1} at n={n // 8} -> {d2} at n={n}"})
            else:
                _guard(armed, case["key"], make_and_sweep(n))
            cnt["sweep_cases"] = 1
            if case.get("cache") == 0:
                cnt["cache0_queries"] = cnt.get("queries", 0)
        elif kind == "sliver_direct":
            T, dt = case["T"], case["dt"]

            def wl():
                bm = torchsde.BrownianInterval(0.0, T, size=(2,), entropy=5)
                t = 0.0
                k = 0
                while t < T:
                    nt = min(t + dt, T)
                    armed.call(bm, t, nt)
                    if nt - t < 1e-9 * dt:
                        cnt["sliver_queries"] = cnt.get("sliver_queries", 0) + 1
                    t = nt
                    k += 1
                # a deliberately placed 1-ulp query right after the warm-up
                bm2 = torchsde.BrownianInterval(0.0, T, size=(2,), entropy=6)
                h = T / 100
                for i in range(100):
                    armed.call(bm2, i * h, (i + 1) * h if i < 99 else T * (1 - 2 ** -50))
                armed.call(bm2, T * (1 - 2 ** -50), T)
                cnt["sliver_queries"] = cnt.get("sliver_queries", 0) + 1
                for i in range(99, -1, -1):
                    armed.call(bm2, i * h, (i + 1) * h if i < 99 else T * (1 - 2 ** -50))
            _guard(armed, "sliver_after_warmup", wl)
        elif kind == "sliver_sdeint":
            T, dt = case["T"], case["dt"]
            sde = zoo.NeuralSDE(2, 2, "diagonal", "ito", seed=3)
            rb = {}

            def wl():
                # default Brownian motion, created inside sdeint: watch it through the class-level probes
                y0 = torch.zeros(3, 2)
                ys = armed.call(torchsde.sdeint, sde, y0, [0.0, T], dt=dt, method="euler")
                rb["ok"] = bool(torch.isfinite(ys).all())
            _guard(armed, "sdeint_default_bm_sliver", wl)
            cnt["sdeint_default_bm_runs"] = 1
            cnt["sliver_queries"] = cnt.get("sliver_queries", 0) + 1
        elif kind == "subtol":
            tol, halfway, where = case["tol"], case["halfway"], case["where"]

            def wl():
                bm = torchsde.BrownianInterval(0.0, 1.0, size=(2,), entropy=11, tol=tol, halfway_tree=halfway,
                                               levy_area_approximation="space-time")
                if where == "boundary":
                    armed.call(bm, 0.25, 0.5, return_U=True)
                base = {"start": 0.0, "middle": 0.3 + tol / 10, "end": 1.0 - tol / 4, "boundary": 0.5}[where]
                for frac in (0.1, 0.3, 0.49, 0.9):
                    a, b = base, min(base + frac * tol, 1.0)
                    if a < b:
                        W, U = armed.call(bm, a, b, return_U=True)
                        cnt["subtol_queries"] = cnt.get("subtol_queries", 0) + 1
                        if not (torch.isfinite(W).all() and torch.isfinite(U).all()):
                            viol.append({"mechanism": "non_finite_value:subtol", "detail": f"({a},{b})"})
                # queries LONGER than tol whose end points still round to the same grid point (the grid is
                # 10**-ndigits, coarser than tol when tol is not a power of ten)
                grid = 10.0 ** -bmgen.ndigits(tol)
                for g in (0.3, 0.5, 0.7 + grid):
                    g = round(g, bmgen.ndigits(tol))
                    for frac in (0.4, 0.3, 0.1):
                        a, b = g - frac * grid, g + frac * grid
                        W, U = armed.call(bm, a, b, return_U=True)
                        cnt["subtol_queries"] = cnt.get("subtol_queries", 0) + 1
                        cnt["same_gridpoint_queries"] = cnt.get("same_gridpoint_queries", 0) + 1
                # and a run of consecutive sub-tolerance steps, as an adaptive solver at dt_min would make
                t = 0.3
                for _ in range(40):
                    armed.call(bm, t, t + 0.31 * tol)
                    t += 0.31 * tol
                    cnt["subtol_queries"] = cnt.get("subtol_queries", 0) + 1
            _guard(armed, f"subtolerance_query:{'dyadic' if halfway else 'plain'}", wl)
        elif kind == "finehint":
            def wl():
                bm = torchsde.BrownianInterval(0.0, 1.0, size=(2,), entropy=12, tol=case["tol"],
                                               cache_size=case["cache"], dt=case["dthint"])
                nd = bmgen.ndigits(case["tol"])
                pts = sorted({round(i / 150, nd) for i in range(151)})
                _sweep(armed, bm, pts, {})
                if case["cache"] == 0:
                    cnt["cache0_queries"] = cnt.get("cache0_queries", 0) + 2 * len(pts)
            _guard(armed, "dt_hint_below_tolerance", wl)
        elif kind == "sdeint_long":
            n = case["n"]
            st = "stratonovich" if case["method"] == "midpoint" else "ito"
            sde = zoo.NeuralSDE(2, 2, "diagonal", st, seed=4, gscale=0.3)

            def wl():
                ys = armed.call(torchsde.sdeint, sde, torch.zeros(2, 2), [0.0, 1.0], dt=1.0 / n, method=case["method"])
                if not torch.isfinite(ys).all():
                    viol.append({"mechanism": "non_finite_solution", "detail": case["method"]})
            d = _guard(armed, f"sdeint_default_bm:{case['method']}", lambda: depth_of(wl))
            if d is not None:
                mx["stack_depth_sdeint"] = d
                if d > 150:
                    viol.append({"mechanism": "stack_depth_grows_with_queries", "detail": f"sdeint depth {d}"})
            cnt["sdeint_default_bm_runs"] = 1
            cnt["queries"] = cnt.get("queries", 0) + armed.tp.n_public_calls
        elif kind == "sdeint_adaptive":
            sde = zoo.NeuralSDE(2, 2, "diagonal", "ito", seed=5, gscale=0.5)

            def wl():
                ys = armed.call(torchsde.sdeint, sde, torch.zeros(2, 2), [0.0, 0.5, 2.0], dt=0.05, method="milstein",
                                adaptive=True, rtol=1e-5, atol=1e-6, dt_min=1e-7)
                assert torch.isfinite(ys).all()
            _guard(armed, "sdeint_default_bm:adaptive", wl)
            cnt["sdeint_default_bm_runs"] = 1
            cnt["queries"] = cnt.get("queries", 0) + armed.tp.n_public_calls
        elif kind == "sdeint_tree":
            sde = zoo.NeuralSDE(2, 2, "diagonal", "ito", seed=6, gscale=0.3)

            def wl():
                bm = torchsde.BrownianTree(t0=0.0, w0=torch.zeros(2, 2), t1=1.0, entropy=3, tol=case.get("tol", 1e-6))
                ys = armed.call(torchsde.sdeint, sde, torch.zeros(2, 2), [0.0, 1.0], bm=bm, dt=case["dt"],
                                method="euler")
                assert torch.isfinite(ys).all()
                cnt["subtol_queries"] = cnt.get("subtol_queries", 0) + 1
            _guard(armed, "sdeint_with_BrownianTree", wl)
            cnt["queries"] = cnt.get("queries", 0) + armed.tp.n_public_calls
        elif kind == "sdeint_adjoint_long":
            n = case["n"]
            sde = zoo.NeuralSDE(2, 2, "diagonal", "stratonovich", seed=7, gscale=0.3)

            def wl():
                y0 = torch.zeros(2, 2, requires_grad=True)
                ys = armed.call(torchsde.sdeint_adjoint, sde, y0, [0.0, 1.0], dt=1.0 / n, method="midpoint")
                ys[-1].sum().backward()
                assert torch.isfinite(y0.grad).all()
            _guard(armed, "sdeint_adjoint_default_bm", wl)
            cnt["sdeint_default_bm_runs"] = 1
            cnt["queries"] = cnt.get("queries", 0) + armed.tp.n_public_calls
        elif kind == "random":
            cfg = case["cfg"]
            rng = random.Random(case["hseed"])

            def wl():
                k, qs, step = bmgen.history(cfg, rng)
                bm, base, meta = bmgen.build(cfg, step_hint=step)
                fl = bmgen.flags_for(cfg)
                t0, t1 = cfg["t0"], cfg["t1"]
                for (a, b) in qs:
                    armed.call(bm, *bmgen.to_frame(cfg, a, b), **fl)
                    r = rng.random()
                    if r < 0.1:  # off-grid query (valid, in range)
                        a2, b2 = sorted([rng.uniform(t0, t1), rng.uniform(t0, t1)])
                        armed.call(bm, *bmgen.to_frame(cfg, a2, b2), **fl)
                    elif r < 0.15 and cfg.get("tol", 0) > 0:  # sub-tolerance query
                        a2 = rng.uniform(t0, t1 - cfg["tol"])
                        armed.call(bm, *bmgen.to_frame(cfg, a2, a2 + rng.random() * cfg["tol"]), **fl)
                        cnt["subtol_queries"] = cnt.get("subtol_queries", 0) + 1
                    elif r < 0.18:  # 1-ulp query
                        a2 = rng.uniform(t0, t1) * (1 - 1e-12)
                        b2 = a2 + abs(a2) * 2 ** -52 + 5e-324
                        if t0 <= a2 < b2 <= t1:
                            armed.call(bm, *bmgen.to_frame(cfg, a2, b2), **fl)
                            cnt["sliver_queries"] = cnt.get("sliver_queries", 0) + 1
                if cfg.get("cache") == 0:
                    cnt["cache0_queries"] = cnt.get("cache0_queries", 0) + len(qs)
                sample["history"] = [k, len(qs)]
            with warnings.catch_warnings():
                warnings.simplefilter("ignore")
                _guard(armed, f"random_history:{cfg['wrapper']}", wl)
        else:
            raise ValueError(kind)
    armed.finish()
    nt = cnt.get("queries", 0) >= 100 or cnt.get("subtol_queries", 0) > 0 or cnt.get("sliver_queries", 0) > 0
    sample.update(kind=kind, queries=cnt.get("queries", 0), max_ops_per_call=armed.tp.max_ops_call,
                  evictions=armed.tp.n_evict, refinements=armed.tp.n_dep_tree)
    return {"violations": viol, "counters": cnt, "max": mx, "nontrivial": nt, "sample": sample}
