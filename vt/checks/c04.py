"""C04 - Brownian samples have exactly the law of Brownian motion.

Monitor A (exact linear map): brownian_interval._randn is replaced by labelled unit vectors, so every
   returned W/H is a row of the linear map noise->output; M M^T is compared with the Brownian covariance
   integrals (no sampling error). User-supplied W/H enter as two more labelled sources (bridge law).
Monitor B (Levy-area structure): recorded noise; A - (H(x)W - W(x)H) must equal c (N - N^T) with 2c^2 the
   prescribed conditional variance (Davie h^2/12, Foster h^2/20 + h/5 (H_i^2+H_j^2)); per-node seeds unique.
Monitor C (every element its own noise): outputs of a (B,m) object equal the labelled coefficients applied
   element-wise to the recorded noise tensors; every noise request has the full sample shape.
Monitor D (sampling layer): real draws with fixed entropy, |z| < 5.5 on moments and correlations.
"""
import math
import random

import numpy as np
import torch

from .. import bmgen, probes
from torchsde._brownian import brownian_interval as bi

ID = "C04"
LEVEL = "exploration"
RULE = ("case = (monitor A|B|C|D, constructor configuration, history seed); non-trivial = the probes were answered "
        "from a tree with >= 8 noise sources (A, C), >= 3 single-node Levy areas were decomposed (B), or >= 20 "
        "statistics were z-tested (D); distinct = distinct case keys")
ASSUMPTIONS = [
    "torch.randn with a seeded generator yields i.i.d. N(0,1) elements (only its first four moments and pair "
    "correlations are sampled, monitor D)",
    "Levy-area conditional variance is checked on queries answered by a single tree node; multi-piece queries are "
    "covered by Chen's relation in C03",
]
REQUIRED_COUNTERS = ["A_pairs", "A_bridge_cases", "B_nodes", "B_davie", "B_foster", "C_elements", "D_stats",
                     "A_halfway", "A_overlapping_pairs", "A_disjoint_pairs", "A_deep_cases", "B_deep_cases",
                     "B_reversed_view_used_in_between"]
THRESHOLDS = {"A_cov_abs": 1e-11, "B_rel": 1e-10, "C_rel": 1e-10, "D_z": 5.5}
K = 4096


def cases(tier, seed):
    rng = random.Random(f"C04-{seed}")
    nA, nB, nC, nD = (160, 60, 50, 6) if tier == "quick" else (2500, 800, 600, 48)
    out = []

    def cfg_for(mon, crng):
        span = crng.choice([1.0, 2.5, 0.37])
        t0 = crng.choice([0.0, -1.0, 3.2])
        halfway = crng.random() < 0.25
        cfg = {"wrapper": "interval", "dtype": "f64", "entropy": crng.randrange(1, 2 ** 31 - 1),
               "t0": t0, "t1": t0 + span, "halfway": halfway,
               "cache": crng.choice([0, 1, 3, 45, None]),
               "supply": crng.choice(["none", "none", "W", "WH"]) if mon == "A" else "none"}
        if halfway:
            cfg["tol"] = crng.choice([1e-2, 1e-3])
            cfg["dthint"] = None
        else:
            cfg["tol"] = crng.choice([0.0, 0.0, 1e-3])
            cfg["dthint"] = crng.choice([None, None, span / 3, span / 20])
        if mon == "A":
            cfg["levy"] = crng.choice(["none", "space-time", "space-time", "davie", "foster"])
            cfg["shape"] = [K]
        elif mon == "B":
            cfg["levy"] = crng.choice(["davie", "foster"])
            cfg["shape"] = crng.choice([[3, 2], [2, 3], [1, 4], [2, 2, 3]])
        elif mon == "C":
            cfg["levy"] = crng.choice(["none", "space-time", "davie", "foster"])
            cfg["shape"] = crng.choice([[3, 2], [5], [2, 3, 2], [4, 1]])
        return cfg

    for mon, n in (("A", nA), ("B", nB), ("C", nC)):
        for i in range(n):
            crng = random.Random(f"C04-{seed}-{mon}{i}")
            cfg = cfg_for(mon, crng)
            if mon in ("A", "B") and i % 8 == 7:
                # deep trees: two (or more) subtrees, each a chain more than 32 levels deep with the same left/right
                # pattern - "twin": both halves queried, then each half walked in 36-44 sequential steps;
                # "hinted": a dt hint with a large cache builds a few big leaves, a fixed-step sweep then hangs a
                # chain of 60-80 steps below each of them
                cfg.update(halfway=False, tol=0.0, supply="none")
                cfg["deep"] = "twin" if (i // 8) % 2 == 0 else "hinted"
                if cfg["deep"] == "hinted":
                    cfg["cache"] = crng.choice([None, 100, 80])
                    cfg["dthint"] = (cfg["t1"] - cfg["t0"]) / crng.choice([192, 256])
                else:
                    cfg["dthint"] = None
                    cfg["cache"] = crng.choice([3, 45, None])
            out.append({"key": f"{mon}{i}", "monitor": mon, "cfg": cfg,
                        "hseed": crng.randrange(10 ** 9), "cost": 3.0 if cfg.get("deep") else 1.0})
    for i in range(nD):
        crng = random.Random(f"C04-{seed}-D{i}")
        out.append({"key": f"D{i}", "monitor": "D", "levy": ["davie", "foster", "space-time", "none"][i % 4],
                    "N": 60000 if tier == "quick" else 200000, "entropy": crng.randrange(1, 2 ** 31 - 1),
                    "hseed": crng.randrange(10 ** 9), "cache": crng.choice([1, 45, None]),
                    "halfway": (i % 5 == 4), "cost": 12.0})
    return out


# --------------------------------------------------------------------------------------------
def _build(cfg, W=None, H=None):
    import torchsde
    kw = dict(t0=cfg["t0"], t1=cfg["t1"], size=tuple(cfg["shape"]), dtype=torch.float64, entropy=cfg["entropy"],
              tol=cfg["tol"], cache_size=cfg["cache"], halfway_tree=cfg["halfway"],
              levy_area_approximation=cfg["levy"], dt=cfg["dthint"])
    if W is not None:
        kw["W"] = W
    if H is not None:
        kw["H"] = H
    return torchsde.BrownianInterval(**kw)


def _deep_history(cfg, rng):
    """Returns (kind, queries, probes): see cases()."""
    t0, t1 = cfg["t0"], cfg["t1"]
    span = t1 - t0
    if cfg["deep"] == "twin":
        n = rng.choice([36, 40, 44])
        mid = t0 + 0.5 * span
        left = [t0 + 0.5 * span * k / n for k in range(n)] + [mid]
        right = [mid + 0.5 * span * k / n for k in range(n)] + [t1]
        qs = [(t0, mid), (mid, t1)]
        qs += [(left[k], left[k + 1]) for k in range(n)] + [(right[k], right[k + 1]) for k in range(n)]
        late = [n - 1, n - 2, n - 3]
        pr = [(left[k], left[k + 1]) for k in late] + [(right[k], right[k + 1]) for k in late]
        pr += [(left[n - 6], left[n - 1]), (right[n - 6], right[n - 1])]
        return "twin_chains", qs, pr
    n = int(round(span / cfg["dthint"]))
    pts = [t0 + span * k / n for k in range(n)] + [t1]
    qs = [(pts[k], pts[k + 1]) for k in range(n)]
    # probes: the last steps before each quarter point and before the end (late positions inside different leaves)
    pr = []
    for q in (n // 4, n // 2, 3 * n // 4, n):
        pr += [(pts[q - 1], pts[q]), (pts[q - 2], pts[q - 1])]
    return "hinted_sweep", qs, pr


def _small_history(cfg, rng):
    kind = rng.choice(["random", "random", "sweep", "adaptive", "bisect", "mixed", "long"])
    n = {"random": rng.choice([0, 3, 8, 20, 40]), "sweep": rng.choice([5, 20, 60]),
         "adaptive": rng.choice([5, 15]), "bisect": None, "mixed": 40, "long": 130}[kind]
    if kind == "long":
        kind = "random"
    k, qs, step = bmgen.history(cfg, rng, kind=kind, n=n, small=False)
    return k, qs


def _probe_intervals(cfg, rng, qs, n):
    rd = bmgen.grid_round(cfg)
    t0, t1 = cfg["t0"], cfg["t1"]
    out = []
    pts = sorted({p for q in qs for p in q})
    for _ in range(n):
        r = rng.random()
        if r < 0.3 and len(pts) >= 2:
            a, b = sorted(rng.sample(pts, 2))
        elif r < 0.4:
            a, b = t0, t1
        else:
            a, b = sorted([rd(rng.uniform(t0, t1)), rd(rng.uniform(t0, t1))])
        if a < b:
            out.append((a, b))
    return out


def _phi(f, i, r):
    if f == "W":
        return 1.0
    h = i[1] - i[0]
    return (i[1] - r) / h - 0.5


def _cov(f1, i1, f2, i2):
    a, b = max(i1[0], i2[0]), min(i1[1], i2[1])
    if b <= a:
        return 0.0
    g = lambda r: _phi(f1, i1, r) * _phi(f2, i2, r)  # noqa: E731  (quadratic: Simpson is exact)
    return (b - a) / 6 * (g(a) + 4 * g(0.5 * (a + b)) + g(b))


def _rows(bm, cfg, probes_):
    rows, labs = [], []
    have_H = cfg["levy"] != "none"
    for (a, b) in probes_:
        if have_H:
            out = bm(a, b, return_U=True)
            W, U = out[0], out[1]
            H = U / (b - a) - 0.5 * W
            rows += [W, H]
            labs += [("W", (a, b)), ("H", (a, b))]
        else:
            rows.append(bm(a, b))
            labs.append(("W", (a, b)))
    return rows, labs


def run_A(case):
    cfg = case["cfg"]
    rng = random.Random(case["hseed"])
    viol, cnt, mx = [], {}, {}
    lab = probes.NoiseLabeller(K)
    span = cfg["t1"] - cfg["t0"]
    Wsup = Hsup = None
    if cfg["supply"] in ("W", "WH"):
        Wsup = torch.zeros(K)
        Wsup[K - 1] = math.sqrt(span)
    if cfg["supply"] == "WH":
        Hsup = torch.zeros(K)
        Hsup[K - 2] = math.sqrt(span / 12)
    with lab.installed():
        bm = _build(cfg, Wsup, Hsup)
        if cfg.get("deep"):
            kind, qs, pr = _deep_history(cfg, rng)
        else:
            kind, qs = _small_history(cfg, rng)
        fl = bmgen.flags_for(cfg)
        tpd = probes.TreeProbe()
        with tpd.installed():
            for (a, b) in qs:
                bm(a, b, **fl)
            if cfg.get("deep"):
                # how deep are the nodes that answer the probes?
                depths = []
                for (a, b) in pr:
                    bm(a, b, **fl)
                    node = tpd.last_pieces[0]
                    dd = 0
                    while node._parent is not None:
                        node, dd = node._parent, dd + 1
                    depths.append(dd)
                mx["A_probe_node_depth"] = max(depths)
                cnt["A_deep_cases"] = int(sum(1 for x in depths if x >= 34) >= 2)
        if not cfg.get("deep"):
            pr = _probe_intervals(cfg, rng, qs, 14)
        rows, labs = _rows(bm, cfg, pr)
        if Wsup is not None:
            Wtot = bm(cfg["t0"], cfg["t1"])
            cnt["A_bridge_cases"] = 1
            if not torch.equal(Wtot, Wsup):
                viol.append({"mechanism": "supplied_W_not_returned", "detail": f"cfg={cfg}"})
            if Hsup is not None and cfg["levy"] != "none":
                Wt, Ut = bm(cfg["t0"], cfg["t1"], return_U=True)
                Ht = Ut / span - 0.5 * Wt
                if float((Ht - Hsup).abs().max()) > 1e-13:
                    viol.append({"mechanism": "supplied_H_not_returned", "detail": f"cfg={cfg}"})
    if lab.bad_size:
        viol.append({"mechanism": "noise_not_at_sample_shape", "detail": str(lab.bad_size[:3])})
    if len(lab.map) + 2 > K:
        return {"inconclusive": ["label space exhausted"]}
    if rows:
        M = torch.stack(rows).numpy()
        C = M @ M.T
        n = len(labs)
        Cexp = np.array([[_cov(f1, i1, f2, i2) for (f2, i2) in labs] for (f1, i1) in labs])
        err = np.abs(C - Cexp)
        worst = float(err.max())
        mx["A_cov_abs_err"] = worst
        cnt["A_pairs"] = n * (n + 1) // 2
        ov = dj = 0
        for x in range(n):
            for y in range(x):
                i1, i2 = labs[x][1], labs[y][1]
                if i1 != i2:
                    if min(i1[1], i2[1]) > max(i1[0], i2[0]):
                        ov += 1
                    else:
                        dj += 1
        cnt["A_overlapping_pairs"], cnt["A_disjoint_pairs"] = ov, dj
        if worst > THRESHOLDS["A_cov_abs"] * max(1.0, span):
            x, y = np.unravel_index(int(err.argmax()), err.shape)
            kind_ = ("variance" if x == y else
                     "W_H_same_interval" if labs[x][1] == labs[y][1] else "cross_covariance")
            viol.append({"mechanism": f"covariance_mismatch:{kind_}:{labs[x][0]}{labs[y][0]}",
                         "detail": f"got {C[x, y]:.12g} want {Cexp[x, y]:.12g} for {labs[x]} x {labs[y]} "
                                   f"history={kind}/{len(qs)} cfg={ {k: v for k, v in cfg.items() if k != 'shape'} }"})
    cnt["A_sources"] = len(lab.map)
    cnt["A_halfway"] = int(cfg["halfway"])
    cnt["A_noise_calls"] = lab.calls
    return {"violations": viol, "counters": cnt, "max": mx, "nontrivial": len(lab.map) >= 8 and len(rows) >= 6,
            "sample": {"history": kind, "queries": len(qs), "probes": len(rows), "noise_sources": len(lab.map),
                       "worst_abs_cov_err": mx.get("A_cov_abs_err")}}


# --------------------------------------------------------------------------------------------
class _SeedOwner:
    """Records which tree node asks for which seed (wraps _Interval._randn / _randn_levy)."""

    def __init__(self):
        self.owner = {}
        self.clash = []
        self.levy_noise = {}

    def installed(self):
        import contextlib
        so = self
        I = bi._Interval

        @contextlib.contextmanager
        def cm():
            o_r, o_l = I._randn, I._randn_levy

            def randn(self_, seed):
                key = (int(seed), "wh")
                so._own(key, id(self_))
                return o_r(self_, seed)

            def randn_levy(self_):
                seed = int(self_._a_seed())
                so._own((seed, "a"), id(self_))
                out = o_l(self_)
                so.levy_noise[id(self_)] = out
                return out

            I._randn, I._randn_levy = randn, randn_levy
            try:
                yield so
            finally:
                I._randn, I._randn_levy = o_r, o_l
        return cm()

    def _own(self, key, node):
        seed, role = key
        for r in ("wh", "a"):
            prev = self.owner.get((seed, r))
            if prev is not None and (prev != node or r != role):
                self.clash.append((seed, r, role))
        self.owner[key] = node


def run_B(case):
    cfg = case["cfg"]
    rng = random.Random(case["hseed"])
    viol, cnt, mx = [], {}, {}
    so = _SeedOwner()
    tp = probes.TreeProbe()
    with so.installed(), tp.installed():
        bm = _build(cfg)
        if cfg.get("deep"):
            kind, qs, pr = _deep_history(cfg, rng)
            cnt["B_deep_cases"] = 1
        else:
            kind, qs = _small_history(cfg, rng)
        for (a, b) in qs:
            bm(a, b, return_U=True, return_A=True)
        if not cfg.get("deep"):
            pr = _probe_intervals(cfg, rng, qs, 12)
        # make sure single-node queries are present: re-query stored pieces
        extra = []
        for (a, b) in pr:
            bm(a, b, return_A=True)
            extra += [(p._start, p._end) for p in tp.last_pieces[:2]]
        import torchsde as _ts
        rev = _ts.ReverseBrownian(bm)
        for (a, b) in pr + extra:
            if rng.random() < 0.5:
                # a reversed view of the same object is used in between (as every adjoint backward pass does): the law of
                # what the object itself returns afterwards is unchanged
                rev(-b, -a, return_U=True, return_A=True)
                cnt["B_reversed_view_used_in_between"] = cnt.get("B_reversed_view_used_in_between", 0) + 1
            W, U, A = bm(a, b, return_U=True, return_A=True)
            pieces = tp.last_pieces
            if len(pieces) != 1:
                continue
            node = pieces[0]
            h = node._end - node._start
            hq = b - a
            H = U / hq - 0.5 * W
            N = so.levy_noise.get(id(node))
            if N is None:
                viol.append({"mechanism": "levy_noise_not_drawn", "detail": f"({a},{b})"})
                continue
            if tuple(N.shape) != (*cfg["shape"], cfg["shape"][-1]):
                viol.append({"mechanism": "levy_noise_wrong_shape", "detail": str(tuple(N.shape))})
                continue
            mean = H.unsqueeze(-1) * W.unsqueeze(-2) - W.unsqueeze(-1) * H.unsqueeze(-2)
            R = A - mean
            if cfg["levy"] == "davie":
                var = torch.full_like(R, h ** 2 / 12)
                cnt["B_davie"] = cnt.get("B_davie", 0) + 1
            else:
                H2 = H ** 2
                var = h ** 2 / 20 + (h / 5) * (H2.unsqueeze(-1) + H2.unsqueeze(-2))
                cnt["B_foster"] = cnt.get("B_foster", 0) + 1
            want = (var / 2).sqrt() * (N - N.transpose(-1, -2))
            scale = float(want.abs().max()) + 1e-300
            e = float((R - want).abs().max()) / scale
            mx["B_rel_err"] = max(mx.get("B_rel_err", 0.0), e)
            cnt["B_nodes"] = cnt.get("B_nodes", 0) + 1
            if not (e <= THRESHOLDS["B_rel"]):
                # classify: proportional to (N - N^T) with a different constant => variance; else structure
                S = N - N.transpose(-1, -2)
                mask = S.abs() > 1e-3
                ratio = (R[mask] / S[mask])
                if cfg["levy"] == "davie" and ratio.numel() and float((ratio - ratio.mean()).abs().max()) < 1e-9:
                    got_var = 2 * float(ratio.mean()) ** 2
                    mech = "levy_conditional_variance:davie"
                    det = f"conditional variance {got_var / h ** 2:.6f} h^2, prescribed {1 / 12:.6f} h^2"
                elif cfg["levy"] == "foster":
                    mech = "levy_conditional_variance:foster"
                    r2 = 2 * (R[mask] / S[mask]) ** 2
                    det = (f"conditional variance/prescribed in [{float((r2 / var[mask]).min()):.4f},"
                           f"{float((r2 / var[mask]).max()):.4f}]")
                else:
                    mech, det = "levy_conditional_structure", f"rel err {e:.3e}"
                viol.append({"mechanism": mech, "detail": det + f" h={h:.4g} cfg={cfg}"})
            asym = float((A + A.transpose(-1, -2)).abs().max())
            if asym > 1e-12:
                viol.append({"mechanism": "levy_not_antisymmetric", "detail": f"{asym:.3e}"})
    if so.clash:
        viol.append({"mechanism": "seed_shared_between_nodes_or_roles", "detail": str(so.clash[:3])})
    cnt["B_seeds"] = len(so.owner)
    return {"violations": viol, "counters": cnt, "max": mx, "nontrivial": cnt.get("B_nodes", 0) >= 3,
            "sample": {"history": kind, "queries": len(qs), "single_node_areas": cnt.get("B_nodes", 0),
                       "levy": cfg["levy"], "worst_rel": mx.get("B_rel_err")}}


# --------------------------------------------------------------------------------------------
def run_C(case):
    cfg = case["cfg"]
    viol, cnt, mx = [], {}, {}
    # pass 1: labelled, size (K,) -> coefficients per seed
    cfgK = dict(cfg, shape=[K])
    lab = probes.NoiseLabeller(K)
    rng = random.Random(case["hseed"])
    with lab.installed():
        bm = _build(cfgK)
        kind, qs = _small_history(cfgK, rng)
        fl = bmgen.flags_for(cfgK)
        for (a, b) in qs:
            bm(a, b, **fl)
        pr = _probe_intervals(cfgK, rng, qs, 8)
        rowsK, labs = _rows(bm, cfgK, pr)
    # pass 2: same entropy & history on the real shape with recorded noise
    rec = probes.NoiseRecorder()
    rng = random.Random(case["hseed"])
    with rec.installed():
        bm2 = _build(cfg)
        kind2, qs2 = _small_history(cfg, rng)
        fl = bmgen.flags_for(cfg)
        for (a, b) in qs2:
            bm2(a, b, **fl)
        pr2 = _probe_intervals(cfg, rng, qs2, 8)
        rows2, labs2 = _rows(bm2, cfg, pr2)
    if labs != labs2:
        return {"inconclusive": ["histories of the two passes differ"]}
    shape = tuple(cfg["shape"])
    levy_shape = (*shape, *shape[-1:])
    for sz in rec.sizes:
        ok = sz == shape or (cfg["levy"] in ("davie", "foster") and len(shape) >= 2 and sz == levy_shape)
        if not ok:
            viol.append({"mechanism": "noise_not_at_sample_shape", "detail": f"requested {sz} for sample shape {shape}"})
            break
    inv = {idx: seed for seed, idx in lab.map.items()}
    for rowK, row2, lb in zip(rowsK, rows2, labs):
        acc = torch.zeros(shape)
        nz = torch.nonzero(rowK).flatten().tolist()
        missing = False
        for idx in nz:
            t = rec.by_seed.get((inv[idx], shape))
            if t is None:
                missing = True
                break
            acc = acc + float(rowK[idx]) * t
        if missing:
            viol.append({"mechanism": "element_noise_mismatch:seed_not_drawn", "detail": str(lb)})
            continue
        e = float((acc - row2).abs().max()) / (1 + float(row2.abs().max()))
        mx["C_rel_err"] = max(mx.get("C_rel_err", 0.0), e)
        cnt["C_elements"] = cnt.get("C_elements", 0) + row2.numel()
        if not (e <= THRESHOLDS["C_rel"]):
            viol.append({"mechanism": "element_noise_mismatch", "detail": f"{lb} rel err {e:.3e} cfg={cfg}"})
    cnt["C_sources"] = len(lab.map)
    return {"violations": viol, "counters": cnt, "max": mx,
            "nontrivial": len(lab.map) >= 8 and cnt.get("C_elements", 0) > 0,
            "sample": {"history": kind, "shape": cfg["shape"], "noise_sources": len(lab.map),
                       "elements_reconstructed": cnt.get("C_elements", 0)}}


# --------------------------------------------------------------------------------------------
def run_D(case):
    import torchsde
    N = case["N"]
    levy = case["levy"]
    m = 2
    rng = random.Random(case["hseed"])
    viol, cnt, mx = [], {}, {}
    kw = dict(t0=0.0, t1=1.0, size=(N, m), entropy=case["entropy"], levy_area_approximation=levy,
              cache_size=case["cache"])
    if case["halfway"]:
        kw.update(tol=1e-3, halfway_tree=True)
    bm = torchsde.BrownianInterval(**kw)
    rd = (lambda x: round(x, 3)) if case["halfway"] else (lambda x: x)
    fl = dict(return_U=levy != "none", return_A=levy in ("davie", "foster"))
    for _ in range(6):
        a, b = sorted([rd(rng.uniform(0, 1)), rd(rng.uniform(0, 1))])
        if a < b:
            bm(a, b, **fl)
    cuts = sorted({0.0, 1.0, *[rd(rng.uniform(0.02, 0.98)) for _ in range(3)]})
    ivs = list(zip(cuts[:-1], cuts[1:]))
    zs = []

    def z_mean(name, x, sd):
        # x: samples (N,), standard deviation sd of each sample known
        z = float(x.mean()) / (sd / math.sqrt(x.numel()))
        zs.append((name, z))

    def z_var(name, x, var, kurt_excess=0.0):
        # variance of x^2 for Gaussian = 2 var^2
        s2 = float((x ** 2).mean())
        z = (s2 - var) / (var * math.sqrt((2.0 + kurt_excess) / x.numel()))
        zs.append((name, z))

    def z_corr(name, x, y, sx, sy):
        c = float((x * y).mean()) / (sx * sy)
        zs.append((name, c * math.sqrt(x.numel())))

    vals = []
    for (a, b) in ivs:
        out = bm(a, b, **fl)
        h = b - a
        W = out if torch.is_tensor(out) else out[0]
        H = None
        if fl["return_U"]:
            H = out[1] / h - 0.5 * W
        A = out[-1] if fl["return_A"] else None
        vals.append((h, W, H, A))
        for j in range(m):
            z_mean(f"meanW[{a:.3f},{b:.3f}]{j}", W[:, j], math.sqrt(h))
            z_var(f"varW[{a:.3f},{b:.3f}]{j}", W[:, j], h)
            k4 = float((W[:, j] ** 4).mean()) / h ** 2
            zs.append((f"kurtW{j}", (k4 - 3.0) / math.sqrt(96.0 / N)))
            if H is not None:
                z_mean(f"meanH{j}", H[:, j], math.sqrt(h / 12))
                z_var(f"varH[{a:.3f},{b:.3f}]{j}", H[:, j], h / 12)
                z_corr(f"corrWH{j}", W[:, j], H[:, j], math.sqrt(h), math.sqrt(h / 12))
        z_corr("corrW0W1", W[:, 0], W[:, 1], math.sqrt(h), math.sqrt(h))
        z_corr("corr_rows", W[:-1, 0], W[1:, 0], math.sqrt(h), math.sqrt(h))
        if H is not None:
            z_corr("corrH0H1", H[:, 0], H[:, 1], math.sqrt(h / 12), math.sqrt(h / 12))
        if A is not None:
            a01 = A[:, 0, 1]
            z_mean("meanA", a01, h / 2)
            # total variance of the (approximate) Levy area must be h^2/4; kurtosis excess is moderate
            s2 = float((a01 ** 2).mean())
            s4 = float((a01 ** 4).mean())
            se = math.sqrt(max(s4 - s2 ** 2, 1e-300) / N)
            zs.append((f"varA_total[{a:.3f},{b:.3f}]", (s2 - h ** 2 / 4) / se))
            R = a01 - (H[:, 0] * W[:, 1] - W[:, 0] * H[:, 1])
            if levy == "davie":
                cv = torch.full_like(R, h ** 2 / 12)
            else:
                cv = h ** 2 / 20 + (h / 5) * (H[:, 0] ** 2 + H[:, 1] ** 2)
            u = R / cv.sqrt()
            z_mean("cond_meanA", u, 1.0)
            z_var(f"cond_varA[{a:.3f},{b:.3f}]", u, 1.0)
            z_corr("corrA_W", u, W[:, 0], 1.0, math.sqrt(h))
    for (h1, W1, H1, A1), (h2, W2, H2, A2) in zip(vals[:-1], vals[1:]):
        z_corr("corr_disjointW", W1[:, 0], W2[:, 0], math.sqrt(h1), math.sqrt(h2))
        if H1 is not None:
            z_corr("corr_disjointH", H1[:, 1], H2[:, 1], math.sqrt(h1 / 12), math.sqrt(h2 / 12))
            z_corr("corr_disjointWH", W1[:, 0], H2[:, 0], math.sqrt(h1), math.sqrt(h2 / 12))
    worst = max(zs, key=lambda t: abs(t[1]))
    mx["D_abs_z"] = abs(worst[1])
    cnt["D_stats"] = len(zs)
    for name, z in zs:
        if not abs(z) < THRESHOLDS["D_z"]:
            viol.append({"mechanism": "sampled_statistic:" + name.split("[")[0].rstrip("0123456789"),
                         "detail": f"{name}: z={z:.2f} (N={N}, levy={levy})"})
    return {"violations": viol, "counters": cnt, "max": mx, "nontrivial": len(zs) >= 20,
            "sample": {"levy": levy, "N": N, "statistics": len(zs), "worst": [worst[0], round(worst[1], 2)]}}


SEED_SENSITIVE = ("covariance_mismatch", "seed_shared_between_nodes_or_roles")


def run_case(case):
    res = {"A": run_A, "B": run_B, "C": run_C, "D": run_D}[case["monitor"]](case)
    sus = [v for v in res.get("violations", []) if v["mechanism"].startswith(SEED_SENSITIVE)]
    if sus and case["monitor"] in ("A", "B"):
        # The library's per-node seeds are 32-bit, so two nodes share a seed by chance once in ~2^32/n^2 cases; that is
        # inherent to the design and not a violation. A structural fault (nodes sharing seeds because of WHERE they are
        # in the tree) repeats for every entropy, a chance collision does not: confirm with two other entropies.
        again = 0
        for bump in (1, 2):
            c2 = dict(case, cfg=dict(case["cfg"], entropy=case["cfg"]["entropy"] + 7919 * bump))
            r2 = {"A": run_A, "B": run_B}[case["monitor"]](c2)
            again += any(v["mechanism"].startswith(SEED_SENSITIVE) for v in r2.get("violations", []))
        if again == 0:
            res["violations"] = [v for v in res["violations"] if v not in sus]
            res.setdefault("counters", {})["chance_seed_collisions_discarded"] = 1
        else:
            for v in sus:
                v["detail"] += f" [confirmed with {again}/2 other entropies]"
    return res
