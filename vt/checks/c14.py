"""C14 - adaptive stepping terminates, tiles the interval and honours tolerances.

Event-trace monitor: SolverProbe records every solver.step call (three per trial: full, half, half), every
compute_error call (inputs + result) and every update_step_size call. A reference model of the controller's
contract is checked against the trace:
  * trials are well-formed triples; the next trial starts at t1 (accepted) or at t0 (rejected);
  * accepted steps are contiguous from ts[0], strictly advance, stay inside [ts[0], ts[-1]], end exactly at ts[-1];
  * every controller-proposed trial is >= dt_min (up to rounding) unless it is clipped to end at ts[-1];
  * the error estimate equals an independent recomputation (mixed rtol/atol RMS norm) from the three step outputs;
  * err > 1  =>  rejected and retried strictly shorter, unless the new step size was clamped to dt_min (then accepted);
    err <= 1 =>  accepted;
  * returned values are the two-half-step values of the accepted trials (and their linear interpolants);
  * number of trials <= 3 (T / dt_min) + 100   (logical termination bound).
Schedules: natural (stiffness 1..5000, tolerances 1e-2..1e-8, float32/float64, all solvers) AND injected at the
compute_error hook (always > 1, alternating, heavy-tailed, tiny) so the controller is driven through schedules
real SDEs rarely produce.
"""
import math
import random

import torch
from torch import nn

from .. import ride  # noqa: E402
from .. import probes, zoo

ID = "C14"
LEVEL = "exploration"
RULE = ("case = (solver, noise type, stiffness, tolerances, dt, dt_min, dtype, natural | injected error script, seed); "
        "non-trivial = >= 5 trials of which >= 1 rejected; distinct = distinct case keys")
ASSUMPTIONS = ["dt >= dt_min (the user-chosen first trial is not a controller proposal)",
               "stiff generators keep k*dt_min < 1 so explicit steps at dt_min are stable; a NaN assertion raised by the "
               "library on a blown-up explicit step is counted separately and not charged to the property",
               "logical termination bound 3*(T/dt_min)+100 trials; the wall-clock watchdog only yields 'inconclusive'"]
REQUIRED_COUNTERS = ["ride_c14_trials", "ride_c14_rejected", "trials", "rejected", "accepted", "dt_min_clamped_trials", "injected_cases", "natural_cases",
                     "error_recomputed", "interpolated_outputs", "float32_cases", "clipped_final_trials", "grad_enabled_runs",
                     "extra_state_solver_runs", "adjoint_entry_runs", "backward_adaptive_solves", "backward_trials",
                     "backward_rejected", "float64_times_float32_state", "tensor_dt_and_dt_min"]
THRESHOLDS = {"error_recompute_rel": 1e-12}

SOLVERS = [("ito", "euler", "additive"), ("ito", "milstein", "diagonal"), ("ito", "srk", "diagonal"),
           ("ito", "srk", "additive"), ("ito", "milstein", "scalar"),
           ("stratonovich", "midpoint", "diagonal"), ("stratonovich", "heun", "general"),
           ("stratonovich", "euler_heun", "scalar"), ("stratonovich", "milstein", "diagonal"),
           ("stratonovich", "log_ode", "general"), ("stratonovich", "reversible_heun", "additive"),
           ("stratonovich", "midpoint", "general"), ("stratonovich", "reversible_heun", "diagonal"),
           ("stratonovich", "reversible_heun", "general"), ("stratonovich", "reversible_heun", "scalar")]


class Stiff(nn.Module):
    """dy = -k (y - sin t) dt + noise; stiffness k."""

    def __init__(self, noise_type, sde_type, d, k, sigma):
        super().__init__()
        self.noise_type, self.sde_type, self.d = noise_type, sde_type, d
        self.m = zoo.noise_dim(noise_type, d, 2)
        self.k, self.sigma = k, sigma

    def f(self, t, y):
        return -self.k * (y - torch.sin(torch.as_tensor(t, dtype=y.dtype)))

    def g(self, t, y):
        if self.noise_type == "diagonal":
            return self.sigma * (1 + 0.5 * torch.cos(y))
        if self.noise_type == "additive":
            return self.sigma * torch.ones(y.size(0), self.d, self.m, dtype=y.dtype)
        base = self.sigma * (1 + 0.5 * torch.cos(y)).unsqueeze(-1)
        return base * torch.linspace(0.5, 1.0, self.m, dtype=y.dtype)


def cases(tier, seed):
    n_nat, n_inj = (70, 50) if tier == "quick" else (2000, 1500)
    out = []
    for i in range(n_nat):
        out.append({"key": f"nat{i}", "kind": "natural", "rseed": hash((seed, 1, i)) % (2 ** 31), "cost": 3})
    for i in range(n_inj):
        out.append({"key": f"inj{i}", "kind": "injected", "rseed": hash((seed, 2, i)) % (2 ** 31), "cost": 2})
    out += ride.cases_for("C14", tier, seed)  # the repository's own tests under passive monitors
    return out


def _script(name, rng):
    if name == "always_reject":
        return lambda i, real: 7.5
    if name == "alternate":
        return lambda i, real: 3.0 if i % 2 == 0 else 0.4
    if name == "heavy_tail":
        vals = [math.exp(rng.gauss(0.0, 2.0)) for _ in range(100000)]
        return lambda i, real: vals[i % len(vals)]
    if name == "tiny":
        return lambda i, real: 1e-7
    if name == "borderline":
        vals = [rng.choice([1.0, 1.0 + 1e-12, 1.0 - 1e-12, 0.999, 1.001]) for _ in range(100000)]
        return lambda i, real: vals[i % len(vals)]
    if name == "reject_bursts":
        vals = [50.0 if (j // 7) % 2 == 0 else 0.05 for j in range(100000)]
        return lambda i, real: vals[i % len(vals)]
    raise ValueError(name)


def _ref_error(y_full, y_half, rtol, atol, eps=1e-7):
    tol = (rtol * torch.max(y_full.abs(), y_half.abs()) + atol).clamp_min(eps)
    r = (y_full - y_half) / tol
    return float(torch.sqrt((r ** 2).sum() / r.numel()).clamp_min(eps))


def _same(x, y):
    """the same value (an implementation is free to copy): identical object or equal tensors / tuples of tensors"""
    if x is y:
        return True
    if torch.is_tensor(x) and torch.is_tensor(y):
        return x.shape == y.shape and torch.equal(x, y)
    if isinstance(x, (tuple, list)) and isinstance(y, (tuple, list)):
        return len(x) == len(y) and all(_same(p, q) for p, q in zip(x, y))
    return False


def check_trace(steps, errors, updates, t_start, t_end, dt, dt_min, rtol, atol, dtype, ctx, viol, cnt, mx, scale,
                tdtype=None):
    """Reference model of the controller's contract against the trace of ONE solver.integrate call over
    [t_start, t_end] (see the module docstring). Returns the accepted steps [(t0, t1, y0, y1)] or None."""
    same = _same
    ntr = len(errors)
    cnt["trials"] = cnt.get("trials", 0) + ntr
    if len(steps) != 3 * ntr or len(updates) != ntr:
        viol.append({"mechanism": "trial_not_full_plus_two_halves",
                     "detail": f"{len(steps)} steps, {ntr} error estimates, {len(updates)} updates {ctx}"})
        return None
    extra_cur = steps[0]["extra0"] if steps else ()
    cnt["extra_state_solver_runs"] = max(cnt.get("extra_state_solver_runs", 0), int(len(extra_cur) > 0))
    ulp = (1.2e-7 if (tdtype or dtype) == torch.float32 else 2.3e-16) * max(1.0, scale)  # of the TIME arithmetic
    accepted = []  # (t0, t1, y0, y1)
    cur = t_start
    step_size = float(dt)
    for i in range(ntr):
        full, h1, h2 = steps[3 * i:3 * i + 3]
        e = errors[i]
        a, b = full["t0"], full["t1"]
        mid = 0.5 * (torch.as_tensor(full["t0_raw"]) + torch.as_tensor(full["t1_raw"]))
        ok_triple = (h1["t0"] == a and h2["t1"] == b and h1["t1"] == h2["t0"] == float(mid)
                     and same(h2["y0"], h1["y1"]) and same(h1["y0"], full["y0"]))
        if not ok_triple:
            viol.append({"mechanism": "trial_not_full_plus_two_halves",
                         "detail": f"trial {i}: full=({a},{b}) halves=({h1['t0']},{h1['t1']}),({h2['t0']},{h2['t1']}) {ctx}"})
            break
        if a != cur:
            viol.append({"mechanism": "trial_starts_at_wrong_time",
                         "detail": f"trial {i} starts at {a!r}, expected {cur!r} {ctx}"})
            break
        # the solver's extra state is part of the state: every trial starts from the extra state of the last ACCEPTED
        # step (a rejected trial leaves no trace), and the second half step continues from the first
        if not (same(full["extra0"], extra_cur) and same(h1["extra0"], extra_cur) and same(h2["extra0"], h1["extra1"])):
            viol.append({"mechanism": "extra_state_not_that_of_last_accepted_step",
                         "detail": f"trial {i} (after {cnt.get('rejected', 0)} rejections) {ctx}"})
            break
        if accepted and not same(full["y0"], accepted[-1][3]):
            viol.append({"mechanism": "trial_does_not_start_from_last_accepted_state", "detail": f"trial {i} {ctx}"})
            break
        if not (b > a and a >= t_start and b <= t_end):
            viol.append({"mechanism": "trial_outside_interval_or_not_advancing", "detail": f"trial {i}: ({a},{b}) {ctx}"})
            break
        length = b - a
        clipped = (b == t_end)
        # trial length = the step size in force, unless clipped to ts[-1]
        if not clipped and abs(length - step_size) > 8 * ulp + 1e-6 * step_size:
            viol.append({"mechanism": "trial_length_differs_from_proposed_step",
                         "detail": f"trial {i}: length {length!r} vs step size {step_size!r} {ctx}"})
            break
        if clipped:
            cnt["clipped_final_trials"] = cnt.get("clipped_final_trials", 0) + 1
        if i > 0 and not clipped and length < dt_min * (1 - 1e-6) - 4 * ulp:
            viol.append({"mechanism": "trial_shorter_than_dt_min",
                         "detail": f"trial {i}: length {length:.3e} < dt_min {dt_min:.3e} {ctx}"})
            break
        # error estimate: inputs are the trial's own outputs, value equals the independent recomputation
        if not (same(e["y_full"], full["y1"]) and same(e["y_half"], h2["y1"])):
            viol.append({"mechanism": "error_estimate_not_from_full_vs_two_half_steps", "detail": f"trial {i} {ctx}"})
            break
        ref = _ref_error(full["y1"].detach(), h2["y1"].detach(), rtol, atol)
        rel = abs(ref - e["real"]) / max(ref, 1e-300)
        mx["error_recompute_rel"] = max(mx.get("error_recompute_rel", 0.0), rel)
        cnt["error_recomputed"] = cnt.get("error_recomputed", 0) + 1
        tol_rel = 1e-5 if dtype == torch.float32 else THRESHOLDS["error_recompute_rel"]
        if rel > tol_rel:
            viol.append({"mechanism": "error_norm_differs_from_mixed_rms_definition",
                         "detail": f"trial {i}: library {e['real']!r} vs reference {ref!r} {ctx}"})
            break
        err = e["returned"]
        new_step = updates[i]["new_step"]
        clamped = new_step < dt_min
        step_after = dt_min if clamped else new_step
        # decide from the NEXT trial (or the end of the run) whether this trial was accepted
        if i + 1 < ntr:
            nxt = steps[3 * (i + 1)]["t0"]
            was_accepted = (nxt == b)
            if not was_accepted and nxt != a:
                viol.append({"mechanism": "trial_starts_at_wrong_time",
                             "detail": f"trial {i + 1} starts at {nxt!r}: neither {a!r} (retry) nor {b!r} (advance) {ctx}"})
                break
        else:
            was_accepted = True
            if b != t_end:
                viol.append({"mechanism": "integration_does_not_end_at_last_time",
                             "detail": f"last trial ends at {b!r}, ts[-1]={t_end!r} {ctx}"})
        should_accept = (err <= 1) or (step_after <= dt_min)
        if was_accepted != should_accept:
            mech = ("step_accepted_although_error_exceeds_one" if was_accepted else "step_rejected_although_error_within_one")
            viol.append({"mechanism": mech, "detail": f"trial {i}: err={err!r} new_step={new_step!r} dt_min={dt_min} {ctx}"})
            break
        if clamped:
            cnt["dt_min_clamped_trials"] = cnt.get("dt_min_clamped_trials", 0) + 1
        if was_accepted:
            cnt["accepted"] = cnt.get("accepted", 0) + 1
            accepted.append((a, b, full["y0"], h2["y1"]))
            cur = b
            extra_cur = h2["extra1"]
        else:
            cnt["rejected"] = cnt.get("rejected", 0) + 1
            # retried strictly shorter
            if not step_after < length * (1 + 1e-12) or (not clamped and not new_step < length):
                if not (clipped and step_after < step_size):
                    viol.append({"mechanism": "rejected_step_not_retried_smaller",
                                 "detail": f"trial {i}: length {length!r}, next step size {step_after!r} {ctx}"})
                    break
        step_size = step_after
    return accepted


def run_case(case):
    if case.get("kind") == "ride":
        return ride.run_case(case)
    import torchsde
    import warnings
    rng = random.Random(case["rseed"])
    viol, cnt, mx = [], {}, {}
    st, method, nt = rng.choice(SOLVERS)
    dtype = torch.float32 if rng.random() < 0.2 else torch.float64
    d, B = rng.choice([1, 2, 3]), rng.choice([1, 2, 4])
    t0 = rng.choice([0.0, 0.0, -1.0, 2.0])
    injected = case["kind"] == "injected"
    if injected:
        T = rng.choice([0.5, 1.0])
        k = rng.choice([1.0, 5.0])
        dt_min = T / rng.choice([40, 150, 400])
        dt = rng.choice([dt_min, 0.05, 0.2, T])
        dt = max(dt, dt_min)
        rtol = atol = 1e-3
        script_name = rng.choice(["always_reject", "alternate", "heavy_tail", "tiny", "borderline", "reject_bursts"])
        script = _script(script_name, rng)
    else:
        T = rng.choice([0.3, 1.0, 2.0])
        k = rng.choice([1.0, 10.0, 100.0, 1000.0, 5000.0])
        dt_min = max(rng.choice([1e-5, 1e-4, 1e-3]), T / 2000)  # bounds the run at ~6000 trials
        k = min(k, 0.5 / dt_min)  # explicit steps at dt_min stay stable
        if dtype == torch.float32:
            dt_min = max(dt_min, 1e-3)
            k = min(k, 300.0)
        dt = rng.choice([0.01, 0.1, 0.5])
        rtol = rng.choice([1e-2, 1e-3, 1e-5, 1e-8])
        atol = rng.choice([1e-2, 1e-4, 1e-6, 1e-8])
        if dtype == torch.float32:
            rtol, atol = max(rtol, 1e-4), max(atol, 1e-5)
        if dt_min < 1e-4:  # keep the run short: looser tolerances with the tiniest dt_min
            rtol, atol = max(rtol, 1e-4), max(atol, 1e-5)
        script_name, script = "natural", None
    sigma = rng.choice([0.1, 0.5])
    sde = Stiff(nt, st, d, k, sigma)
    nout = rng.choice([2, 3, 6])
    # float32 state with the times given as a float64 tensor (time arithmetic is then done in float64, also far from zero)
    ts_dtype = dtype
    if dtype == torch.float32 and rng.random() < 0.5:
        ts_dtype = torch.float64
        if rng.random() < 0.5:
            t0 = 5000.0
        cnt["float64_times_float32_state"] = 1
    tsl = [t0] + sorted(t0 + T * rng.uniform(0.05, 0.95) for _ in range(nout - 2)) + [t0 + T]
    ts = torch.tensor(tsl, dtype=ts_dtype)
    # dt / dt_min may be handed over as 0-d tensors (a legal Scalar); the caller's tensors must come back unchanged
    tensor_steps = rng.random() < 0.3
    cnt["tensor_dt_and_dt_min"] = int(tensor_steps)
    dt_arg = torch.tensor(dt, dtype=torch.float64) if tensor_steps else dt
    dt_min_arg = torch.tensor(dt_min, dtype=torch.float64) if tensor_steps else dt_min
    y0 = torch.randn(B, d, dtype=dtype, generator=torch.Generator().manual_seed(case["rseed"]))
    bm = torchsde.BrownianInterval(t0=float(ts[0]), t1=float(ts[-1]), size=(B, sde.m), dtype=dtype,
                                   entropy=rng.randrange(1, 10 ** 9), levy_area_approximation=zoo.levy_for(method))
    rec = probes.RecordingBrownian(bm)
    pr = probes.SolverProbe(keep_states=True, error_script=script)
    # entry point: the same contract holds for the forward solve of sdeint_adjoint (with ITS rtol/atol, which are made
    # different from the adjoint tolerances) and, with adjoint_adaptive=True, for every reverse-time solve of the
    # backward pass (one solver.integrate call per output interval, controlled by adjoint_rtol/adjoint_atol)
    entry = rng.choice(["sdeint", "sdeint", "sdeint_adjoint"])
    adj_rtol, adj_atol = rtol * rng.choice([0.1, 10.0, 100.0]), atol * rng.choice([0.1, 10.0, 100.0])
    adj_adaptive = entry == "sdeint_adjoint" and not injected and T / dt_min <= 2000 and rng.random() < 0.6
    ctx = (f"{st}/{method}/{nt} k={k} dt={dt} dt_min={dt_min} rtol={rtol} atol={atol} dtype={dtype} ts_dtype={ts_dtype} "
           f"tensor_dt={tensor_steps} ts={tsl} schedule={script_name} entry={entry}"
           + (f" adjoint_rtol={adj_rtol} adjoint_atol={adj_atol} adjoint_adaptive={adj_adaptive}"
              if entry == "sdeint_adjoint" else ""))
    bound = int(3 * (T / dt_min) + 100)
    limit = {"n": 0}
    orig_script = pr.error_script

    def counting(i, real):
        limit["n"] = i + 1
        first = pr.integrate_calls[-1]["errors"][0] if pr.integrate_calls else 0  # trials of the current integrate call
        if i + 1 - first > bound:
            raise probes.OpBudgetExceeded(f"more than {bound} trials")
        return real if orig_script is None else orig_script(i, real)
    pr.error_script = counting
    blown = False
    # grad mode: long runs are made under no_grad (with autograd enabled the solvers that differentiate the diffusion
    # keep a graph through all steps, which makes thousands of steps quadratically slow - not what is monitored here)
    use_grad = injected and dt_min >= T / 150 and rng.random() < 0.5
    cnt["grad_enabled_runs"] = int(use_grad)
    back = None
    try:
        with warnings.catch_warnings(record=True) as wlist, pr.installed():
            warnings.simplefilter("always")
            if entry == "sdeint":
                with torch.set_grad_enabled(use_grad):
                    ys = torchsde.sdeint(sde, y0, ts, bm=rec, method=method, dt=dt_arg, adaptive=True, rtol=rtol,
                                         atol=atol, dt_min=dt_min_arg)
            else:
                cnt["adjoint_entry_runs"] = 1
                y0 = y0.requires_grad_(True)
                ys = torchsde.sdeint_adjoint(sde, y0, ts, bm=rec, method=method, dt=dt_arg, adaptive=True, rtol=rtol,
                                             atol=atol, dt_min=dt_min_arg, adjoint_rtol=adj_rtol, adjoint_atol=adj_atol,
                                             adjoint_adaptive=adj_adaptive)
                n_fwd = (len(pr.steps), len(pr.errors), len(pr.updates), len(rec.log), len(pr.integrate_calls))
                if adj_adaptive:
                    wl = torch.randn(ys.shape, dtype=dtype, generator=torch.Generator().manual_seed(case["rseed"] + 1))
                    try:
                        (ys * wl).sum().backward()
                        back = n_fwd
                    except AssertionError as e:
                        if "nans in the error estimate" not in str(e):
                            raise
                        cnt["blown_up_backward_runs"] = 1
                ys = ys.detach()
                y0 = y0.detach()
    except probes.OpBudgetExceeded as e:
        viol.append({"mechanism": "adaptive_does_not_terminate", "detail": f"{e} {ctx}"})
        return {"violations": viol, "counters": {"trials": limit["n"]}}
    except AssertionError as e:
        if "nans in the error estimate" in str(e):
            blown = True  # unstable explicit step: outside the property
        else:
            raise
    if blown:
        return {"violations": [], "counters": {"blown_up_runs": 1}, "nontrivial": False}

    if tensor_steps and (float(dt_arg) != dt or float(dt_min_arg) != dt_min):
        viol.append({"mechanism": "caller_step_size_tensor_modified",
                     "detail": f"dt {dt} -> {float(dt_arg)!r}, dt_min {dt_min} -> {float(dt_min_arg)!r} {ctx}"})
    steps, errors, updates = pr.steps, pr.errors, pr.updates
    n_log = len(rec.log)
    if entry == "sdeint_adjoint":
        steps, errors, updates, n_log = steps[:n_fwd[0]], errors[:n_fwd[1]], updates[:n_fwd[2]], n_fwd[3]
    ntr = len(errors)
    # (observation, not a verdict: the property does not prescribe the autograd mode of the controller)
    cnt["error_control_calls_with_grad_enabled"] = pr.grad_enabled_in_error
    t_start, t_end = float(ts[0]), float(ts[-1])
    accepted = check_trace(steps, errors, updates, t_start, t_end, dt, dt_min, rtol, atol, dtype, ctx, viol, cnt, mx,
                           abs(t0) + T, tdtype=ts_dtype)
    if accepted is None:
        return {"violations": viol, "counters": cnt}
    if not viol:
        # returned values: two-half-step values of accepted trials, linearly interpolated
        tol = 2e-5 if dtype == torch.float32 else 1e-12
        if not torch.equal(ys[0], y0):
            viol.append({"mechanism": "ys0_not_y0", "detail": ctx})
        for j in range(1, len(tsl)):
            t = float(ts[j])
            seg = next((s for s in accepted if s[0] < t <= s[1]), None)
            if seg is None:
                viol.append({"mechanism": "output_time_not_covered_by_accepted_steps", "detail": f"t={t} {ctx}"})
                break
            a, b, ya, yb = seg
            w = (t - a) / (b - a)
            want = ya.detach().double() + w * (yb.detach().double() - ya.detach().double())
            e = float(((ys[j].double() - want).abs() / (1 + want.abs())).max())
            mx["output_err"] = max(mx.get("output_err", 0.0), e)
            cnt["interpolated_outputs"] = cnt.get("interpolated_outputs", 0) + (0 if t == b else 1)
            if not e <= tol:
                viol.append({"mechanism": "returned_value_not_two_half_step_solution",
                             "detail": f"output {j} (t={t}) differs by {e:.3e} from the accepted two-half-step values {ctx}"})
                break
        # Brownian queries are exactly the trial triples
        if n_log != 3 * ntr:
            viol.append({"mechanism": "unexpected_brownian_queries", "detail": f"{n_log} queries for {ntr} trials {ctx}"})
    if back is not None and not viol:
        # the backward pass: one adaptive reverse-time solve per output interval, [-ts[i], -ts[i-1]] for i = n-1 .. 1,
        # each starting again from the user's dt and governed by the ADJOINT tolerances
        calls = pr.integrate_calls[back[4]:]
        want = [(float(-ts[i]), float(-ts[i - 1])) for i in range(len(tsl) - 1, 0, -1)]
        got = [(float(c["ts"][0]), float(c["ts"][-1])) for c in calls]
        if got != want:
            viol.append({"mechanism": "backward_pass_intervals_differ_from_output_intervals",
                         "detail": f"reverse-time solves over {got}, expected {want} {ctx}"})
        else:
            bc, bmx = {}, {}
            for c in calls:
                cs = pr.steps[c["steps"][0]:c["steps"][1]]
                ce = pr.errors[c["errors"][0]:c["errors"][1]]
                cu = pr.updates[c["updates"][0]:c["updates"][1]]
                nv = len(viol)
                check_trace(cs, ce, cu, float(c["ts"][0]), float(c["ts"][-1]), dt, dt_min, adj_rtol, adj_atol, dtype,
                            ctx + " [backward pass]", viol, bc, bmx, abs(t0) + T, tdtype=ts_dtype)
                for v in viol[nv:]:
                    v["mechanism"] = "backward:" + v["mechanism"]
                if len(viol) > nv:
                    break
            cnt["backward_adaptive_solves"] = len(calls)
            cnt["backward_trials"] = bc.get("trials", 0)
            cnt["backward_rejected"] = bc.get("rejected", 0)
            mx["backward_error_recompute_rel"] = bmx.get("error_recompute_rel", 0.0)
    cnt["injected_cases" if injected else "natural_cases"] = 1
    cnt["float32_cases"] = int(dtype == torch.float32)
    mx["trials_over_bound"] = ntr / bound
    return {"violations": viol, "counters": cnt, "max": mx,
            "nontrivial": ntr >= 5 and cnt.get("rejected", 0) >= 1,
            "sample": {"solver": [st, method, nt], "schedule": script_name, "k": k, "trials": ntr,
                       "rejected": cnt.get("rejected", 0), "clamped": cnt.get("dt_min_clamped_trials", 0),
                       "dt_min": dt_min, "bound": bound}}
