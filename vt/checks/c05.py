"""C05 - repeated queries return bit-identical values whatever happened in between.

Monitor: a shadow dict (interval, flags) -> first returned tensors at the API boundary; every later
occurrence is compared with torch.equal, online, while hostile histories run in between (evictions,
tree refinements, recomputation from seeds). End-to-end: sdeint_adjoint through a RecordingBrownian -
every backward query that names a forward interval must return the forward bits.
"""
import random

import torch

from .. import ride  # noqa: E402
from .. import bmgen, env, probes, zoo
from torchsde._brownian import brownian_interval as bi

ID = "C05"
LEVEL = "exploration"
RULE = ("case = (configuration, wrapper, history seed) or an end-to-end adjoint run; non-trivial = >= 5 repeated "
        "queries were compared of which >= 1 was recomputed after an eviction or a tree refinement (object cases), "
        "or >= 4 backward queries matched forward intervals (adjoint cases); distinct = distinct case keys")
ASSUMPTIONS = ["bit-identity is demanded for identical (ta, tb) floats and identical flags; W must also agree "
               "bitwise between different flag combinations of the same interval"]
REQUIRED_COUNTERS = ["ride_c05_repeats", "repeats", "repeats_after_eviction", "repeats_after_refinement", "repeats_recomputed",
                     "adjoint_matched_queries", "repeats_with_A", "repeats_cache0", "point_repeats",
                     "default_dtype_flipping_cases", "second_backward_passes",
                     "caller_tensors_checked"]
CASE_TIMEOUT = 900


def cases(tier, seed):
    n = 260 if tier == "quick" else 8000
    na = 16 if tier == "quick" else 120
    rng = random.Random(f"C05-{seed}")
    out = []
    for i in range(n):
        crng = random.Random(f"C05-{seed}-{i}")
        r = rng.random()
        wr = "interval" if r < 0.7 else ("reverse" if r < 0.8 else ("tree" if r < 0.9 else "path"))
        cfg = bmgen.random_config(crng, wrappers=(wr,))
        if i % 7 == 0 and wr == "interval":  # force refinement-at-query-101 cases
            cfg.update(halfway=False, dt_mode="none", tol=0.0)
        out.append({"key": f"o{i}", "kind": "object", "cfg": cfg, "hseed": crng.randrange(10 ** 9)})
    for i in range(na):
        out.append({"key": f"adj{i}", "kind": "adjoint", "idx": i, "seed": seed, "cost": 3.0})
    out += ride.cases_for("C05", tier, seed)  # the repository's own tests under passive monitors
    return out


def _as_tuple(out):
    return (out,) if torch.is_tensor(out) else tuple(out)


def run_object(case):
    cfg = case["cfg"]
    rng = random.Random(case["hseed"])
    viol, cnt, mx = [], {}, {}
    tp = probes.TreeProbe()
    rec = probes.NoiseRecorder()
    shadow = {}  # key -> (tensors, evictions_at, refinements_at)
    with tp.installed(), rec.installed():
        kind, qs, step = bmgen.history(cfg, rng)
        if cfg.get("dt_mode") == "none" and not cfg.get("halfway") and len(qs) < 120 and cfg["wrapper"] == "interval":
            # make sure the inferred-dt refinement (after the 100-query warm-up) happens mid-history
            k2, q2, _ = bmgen.history(cfg, rng, kind="sweep", n=130)
            qs = qs + q2
        bm, base, meta = bmgen.build(cfg, step_hint=step)
        given = {k: meta[k].clone() for k in ("W", "H", "w0") if meta.get(k) is not None}
        fl_all = [bmgen.flags_for(cfg)]
        if cfg["levy"] != "none":
            fl_all.append(dict(return_U=False, return_A=False))
        if cfg["levy"] in ("davie", "foster"):
            fl_all.append(dict(return_U=True, return_A=False))

        # "whatever happened in between" includes the process changing PyTorch's default dtype: in 40 % of the cases a
        # third of the queries is made under default float32 (the objects carry an explicit dtype)
        flip_rng = random.Random(case["hseed"] + 7)
        flipping = flip_rng.random() < 0.4
        cnt["default_dtype_flipping_cases"] = int(flipping)

        def ask(a, b, fl):
            qa, qb = bmgen.to_frame(cfg, a, b)
            calls0 = rec.calls
            with env.default_dtype(torch.float32 if (flipping and flip_rng.random() < 0.33) else torch.float64):
                out = _as_tuple(bm(qa, qb, **fl))
            key = (qa, qb, fl["return_U"], fl["return_A"])
            if key in shadow:
                first, ev0, rf0 = shadow[key]
                cnt["repeats"] = cnt.get("repeats", 0) + 1
                if tp.n_evict > ev0:
                    cnt["repeats_after_eviction"] = cnt.get("repeats_after_eviction", 0) + 1
                if tp.n_dep_tree > rf0:
                    cnt["repeats_after_refinement"] = cnt.get("repeats_after_refinement", 0) + 1
                if rec.calls > calls0:
                    cnt["repeats_recomputed"] = cnt.get("repeats_recomputed", 0) + 1
                if fl["return_A"]:
                    cnt["repeats_with_A"] = cnt.get("repeats_with_A", 0) + 1
                if cfg.get("cache") == 0:
                    cnt["repeats_cache0"] = cnt.get("repeats_cache0", 0) + 1
                for name, x, y in zip(("W", "U" if fl["return_U"] else "A", "A"), out, first):
                    if (x is None) != (y is None) or (x is not None and not torch.equal(x, y)):
                        d = float((x - y).abs().max()) if x is not None and y is not None else float("nan")
                        viol.append({"mechanism": f"repeat_differs:{name}:{cfg['wrapper']}",
                                     "detail": f"query ({qa},{qb}) flags={fl} max diff {d:.3e}; evictions since "
                                               f"first={tp.n_evict - ev0}, refinements since first="
                                               f"{tp.n_dep_tree - rf0} cfg={cfg}"})
            else:
                # (snapshots: a library that later mutates a tensor it has handed out must not drag the shadow along)
                shadow[key] = (tuple(None if x is None else x.clone() for x in out), tp.n_evict, tp.n_dep_tree)
            # W agrees across flag combinations
            wkey = (qa, qb)
            prev = shadow.get(wkey)
            if prev is None:
                shadow[wkey] = out[0].clone()
            elif not torch.equal(prev, out[0]):
                viol.append({"mechanism": f"W_depends_on_flags:{cfg['wrapper']}", "detail": f"({qa},{qb}) {fl}"})
            return out

        def ask_point(t):
            """Point evaluation bm(t) (interval / path / tree): repeatable too, and it must not disturb anything."""
            out = bm(t).clone()
            key = ("point", t)
            cnt["point_queries"] = cnt.get("point_queries", 0) + 1
            if key in shadow:
                cnt["point_repeats"] = cnt.get("point_repeats", 0) + 1
                if not torch.equal(out, shadow[key]):
                    viol.append({"mechanism": f"repeat_differs:point:{cfg['wrapper']}",
                                 "detail": f"bm({t!r}) max diff {float((out - shadow[key]).abs().max()):.3e} cfg={cfg}"})
            else:
                shadow[key] = out

        points_ok = cfg["wrapper"] in ("interval", "path", "tree")
        point_times = [bmgen.pick_time(cfg, rng, 0.6) for _ in range(4)]
        marked = []
        for j, (a, b) in enumerate(qs):
            fl = fl_all[0] if rng.random() < 0.8 else rng.choice(fl_all)
            ask(a, b, fl)
            if points_ok and rng.random() < 0.08:
                ask_point(rng.choice(point_times))
            if rng.random() < 0.15:
                marked.append((a, b, fl))
            if marked and rng.random() < 0.1:
                ask(*rng.choice(marked))
        # final pass: everything seen so far again, shuffled
        again = [(k[0], k[1], dict(return_U=k[2], return_A=k[3])) for k in shadow if len(k) == 4]
        rng.shuffle(again)
        if points_ok:
            for t in point_times:
                ask_point(t)
        for (qa, qb, fl) in again[:150]:
            a, b = bmgen.to_frame(cfg, qa, qb)  # involution
            ask(a, b, fl)
        if points_ok:
            for t in point_times:
                ask_point(t)
    if tp.cache_overflow:
        viol.append({"mechanism": "cache_overflow", "detail": str(tp.cache_overflow[:3])})
    cnt["queries"] = len(qs)
    nt = cnt.get("repeats", 0) >= 5 and (cnt.get("repeats_after_eviction", 0) + cnt.get("repeats_after_refinement", 0)
                                         + cnt.get("repeats_recomputed", 0)) >= 1
    # tensors the caller handed to the constructor (W, H, w0) are the caller's: never modified by queries
    for k_, v_ in given.items():
        cnt["caller_tensors_checked"] = cnt.get("caller_tensors_checked", 0) + 1
        if not torch.equal(meta[k_], v_):
            viol.append({"mechanism": f"caller_tensor_modified:{k_}:{cfg['wrapper']}", "detail": f"cfg={cfg}"})
    return {"violations": viol, "counters": cnt, "max": mx, "nontrivial": nt,
            "sample": {"history": kind, "queries": len(qs), "repeats": cnt.get("repeats", 0),
                       "after_eviction": cnt.get("repeats_after_eviction", 0),
                       "after_refinement": cnt.get("repeats_after_refinement", 0),
                       "recomputed_from_seeds": cnt.get("repeats_recomputed", 0)}}


ADJ = [  # (sde_type, noise_type, method, adjoint_method, levy)
    ("ito", "diagonal", "euler", "euler", "none"),
    ("ito", "diagonal", "milstein", "milstein", "none"),
    ("ito", "diagonal", "srk", "milstein", "space-time"),
    ("ito", "additive", "srk", "euler", "space-time"),
    ("ito", "scalar", "euler", "euler", "none"),
    ("ito", "general", "euler", "euler", "none"),
    ("stratonovich", "diagonal", "midpoint", "midpoint", "none"),
    ("stratonovich", "general", "heun", "euler_heun", "none"),
    ("stratonovich", "general", "reversible_heun", "adjoint_reversible_heun", "none"),
    ("stratonovich", "additive", "reversible_heun", "adjoint_reversible_heun", "none"),
    ("stratonovich", "scalar", "milstein", "midpoint", "none"),
    ("stratonovich", "general", "log_ode", "midpoint", "foster"),
    ("stratonovich", "diagonal", "euler_heun", "heun", "davie"),
    ("ito", "diagonal", "milstein", "euler", "space-time"),
    ("stratonovich", "general", "midpoint", "heun", "none"),
    ("stratonovich", "diagonal", "heun", "milstein", "none"),
]


def run_adjoint(case):
    import torchsde
    i = case["idx"]
    sde_type, noise_type, method, adj_method, levy = ADJ[i % len(ADJ)]
    rng = random.Random(f"C05adj-{case['seed']}-{i}")
    torch.manual_seed(rng.randrange(10 ** 6))
    d, m, B = 3, (1 if noise_type == "scalar" else (3 if noise_type == "diagonal" else 2)), 2
    sde = zoo.NeuralSDE(d, m, noise_type, sde_type, seed=rng.randrange(10 ** 6))
    cache = rng.choice([1, 5, 45, None])
    n_steps = rng.choice([8, 16, 32])
    dt = 1.0 / n_steps  # dyadic: forward grid and mirrored backward grid coincide bit for bit
    k = rng.choice([1, 2, 4])
    ts = torch.linspace(0, 1, k + 1)
    base = torchsde.BrownianInterval(0.0, 1.0, size=(B, m), entropy=rng.randrange(1, 10 ** 9), cache_size=cache,
                                     levy_area_approximation=levy)
    bm = probes.RecordingBrownian(base, keep_values=True)
    y0 = torch.randn(B, d, requires_grad=True)
    ys = torchsde.sdeint_adjoint(sde, y0, ts, bm=bm, method=method, adjoint_method=adj_method, dt=dt)
    nf = len(bm.log)
    ys.sum().backward(retain_graph=True)
    # a second backward pass over the same graph queries the same Brownian object again (after the first pass refined
    # and evicted at will): it must see the same noise, hence produce bit-identical gradients
    g1 = [y0.grad.clone()] + [None if p.grad is None else p.grad.clone() for p in sde.parameters()]
    nb1 = len(bm.log)
    y0.grad = None
    for p in sde.parameters():
        p.grad = None
    ys.sum().backward()
    g2 = [y0.grad] + [p.grad for p in sde.parameters()]
    bm.log, bm.values = bm.log[:nb1], bm.values[:nb1]
    fwd = {}
    for q, v in zip(bm.log[:nf], bm.values[:nf]):
        fwd.setdefault(q, _as_tuple(v))
    viol, cnt = [], {"adjoint_forward_queries": nf, "adjoint_backward_queries": len(bm.log) - nf}
    for q, v in zip(bm.log[nf:], bm.values[nf:]):
        # same interval, whatever the flags: W must be the forward W
        for fq, fv in fwd.items():
            if fq[0] == q[0] and fq[1] == q[1]:
                cnt["adjoint_matched_queries"] = cnt.get("adjoint_matched_queries", 0) + 1
                if not torch.equal(_as_tuple(v)[0], fv[0]):
                    viol.append({"mechanism": "backward_noise_differs_from_forward",
                                 "detail": f"{method}/{adj_method} interval {q[:2]} cache={cache}"})
                break
    cnt["second_backward_passes"] = 1
    if any((a is None) != (b is None) or (a is not None and not torch.equal(a, b)) for a, b in zip(g1, g2)):
        viol.append({"mechanism": "second_backward_pass_gives_other_gradients",
                     "detail": f"{method}/{adj_method} {noise_type} cache={cache} steps={n_steps} outputs={k + 1}"})
    return {"violations": viol, "counters": cnt, "max": {},
            "nontrivial": cnt.get("adjoint_matched_queries", 0) >= 4,
            "sample": {"method": method, "adjoint_method": adj_method, "noise": noise_type, "steps": n_steps,
                       "outputs": k + 1, "cache": cache, **cnt}}


def run_case(case):
    if case.get("kind") == "ride":
        return ride.run_case(case)
    return run_object(case) if case["kind"] == "object" else run_adjoint(case)
