"""C19 - unsupported combinations and malformed inputs are rejected up-front.

Exhaustive enumeration of the configuration product with call-count monitors: a rejected forward combination must
raise ValueError with ZERO Brownian queries and ZERO solver steps observed; an accepted one must integrate
(steps > 0, finite result). The acceptance table below is written from the documentation / property text, not
derived from the code.
"""
import itertools
import math
import random

import torch
from torch import nn

from .. import probes, zoo

ID = "C19"
LEVEL = "exploration"
EXHAUSTIVE = True
RULE = ("exhaustive product sde_type x noise_type x method(9 names + invalid) x levy(bm None + 4) x adaptive x logqp for "
        "sdeint; x adjoint_method (None + 9 + invalid) for sdeint_adjoint; 30 malformed-argument classes x 2 entry "
        "points; default-method table. non-trivial = every case (each decides accept/reject for its combination); "
        "distinct = distinct combinations")
ASSUMPTIONS = ["acceptance table: Ito {euler, milstein, srk}; Stratonovich {euler_heun, heun, midpoint, milstein, "
               "reversible_heun, log_ode}; milstein/srk not with general noise; srk needs space-time/davie/foster "
               "Levy area, log_ode needs davie/foster; adjoint solvers: euler, euler_heun, heun, midpoint for every "
               "noise type, milstein for diagonal noise only, adjoint_reversible_heun only after a reversible_heun "
               "forward pass; srk, log_ode, reversible_heun never",
               "a supported adjoint combination must give finite gradients within 10% (relative L2, dt=1/64) of "
               "backprop through the same forward solver; an unsupported one must raise when backward starts"]
REQUIRED_COUNTERS = ["malformed_after_valid_call_on_same_object", "forward_accepted", "forward_rejected", "adjoint_supported", "adjoint_refused", "malformed", "malformed_base_call_accepted",
                     "defaults_checked"]
METHODS = ["euler", "milstein", "srk", "midpoint", "reversible_heun", "adjoint_reversible_heun", "heun", "log_ode",
           "euler_heun", "blah"]
LEVIES = [None, "none", "space-time", "davie", "foster"]


def forward_ok(sde_type, noise_type, method, levy):
    """levy: the Brownian motion's Levy-area mode, or None when sdeint builds its own."""
    if method not in METHODS[:-1] or method == "adjoint_reversible_heun":
        return False
    ito = {"euler", "milstein", "srk"}
    strat = {"euler_heun", "heun", "midpoint", "milstein", "reversible_heun", "log_ode"}
    if method not in (ito if sde_type == "ito" else strat):
        return False
    if method in ("milstein", "srk") and noise_type == "general":
        return False
    if levy is not None:
        if method == "srk" and levy not in ("space-time", "davie", "foster"):
            return False
        if method == "log_ode" and levy not in ("davie", "foster"):
            return False
    return True


def adjoint_ok(sde_type, noise_type, method, adjoint_method):
    if adjoint_method == "adjoint_reversible_heun":
        return method == "reversible_heun"
    if adjoint_method in ("srk", "log_ode", "reversible_heun", "blah"):
        return False
    ito = {"euler", "milstein"}
    strat = {"euler_heun", "heun", "midpoint", "milstein"}
    if adjoint_method not in (ito if sde_type == "ito" else strat):
        return False
    if adjoint_method == "milstein":
        return noise_type == "diagonal"
    return True


DEFAULT_METHOD = {("ito", "diagonal"): "srk", ("ito", "additive"): "srk", ("ito", "scalar"): "srk",
                  ("ito", "general"): "euler"}
DEFAULT_ADJOINT = {("ito", "diagonal"): "milstein", ("ito", "additive"): "euler", ("ito", "scalar"): "euler",
                   ("ito", "general"): "euler"}


def cases(tier, seed):
    out = []
    for st in ("ito", "stratonovich"):
        for nt in zoo.NOISE_TYPES:
            out.append({"key": f"fwd-{st[:5]}-{nt}", "kind": "forward", "sde_type": st, "noise_type": nt, "cost": 8})
            for method in METHODS[:-1]:
                if forward_ok(st, nt, method, None):
                    out.append({"key": f"adj-{st[:5]}-{nt}-{method}", "kind": "adjoint", "sde_type": st,
                                "noise_type": nt, "method": method, "cost": 6})
            out.append({"key": f"adjbad-{st[:5]}-{nt}", "kind": "adjoint_bad_forward", "sde_type": st,
                        "noise_type": nt, "cost": 2})
    out.append({"key": "malformed-sdeint", "kind": "malformed", "entry": "sdeint", "cost": 2})
    out.append({"key": "malformed-sdeint_adjoint", "kind": "malformed", "entry": "sdeint_adjoint", "cost": 2})
    # the same classes on an SDE object that has just been through a VALID call (validation must not be remembered per
    # object: the second call of a training loop is validated like the first)
    out.append({"key": "malformed-sdeint-warm", "kind": "malformed", "entry": "sdeint", "cost": 2, "warm": True})
    out.append({"key": "malformed-sdeint_adjoint-warm", "kind": "malformed", "entry": "sdeint_adjoint", "cost": 2,
                "warm": True})
    out.append({"key": "defaults", "kind": "defaults", "cost": 3})
    return out


class Monitors:
    """Counts Brownian queries (through a recording proxy or on the default object) and solver steps."""

    def __init__(self):
        self.sp = probes.SolverProbe(keep_states=False)
        self.tp = probes.TreeProbe()

    def __enter__(self):
        self._a = self.sp.installed()
        self._b = self.tp.installed()
        self._a.__enter__()
        self._b.__enter__()
        return self

    def __exit__(self, *a):
        self._b.__exit__(*a)
        self._a.__exit__(*a)

    def activity(self):
        return self.tp.n_public_calls, len(self.sp.steps)


def _sde(st, nt, seed=0):
    return zoo.NeuralSDE(2, 2, nt, st, seed=seed, gscale=0.5)


def run_forward(case):
    import torchsde
    st, nt = case["sde_type"], case["noise_type"]
    viol, cnt = [], {}
    sde = _sde(st, nt)
    y0 = torch.full((2, 2), 0.3)
    ts = [0.0, 0.25]
    for method, levy, adaptive, logqp in itertools.product(METHODS, LEVIES, (False, True), (False, True)):
        ok = forward_ok(st, nt, method, levy)
        # (with logqp the state - and for diagonal noise the Brownian motion - has one more channel)
        msize = sde.m + (1 if (logqp and nt == "diagonal") else 0)
        bm = None if levy is None else torchsde.BrownianInterval(0.0, 0.25, size=(2, msize), entropy=3,
                                                                  levy_area_approximation=levy)
        ctx = f"sde_type={st} noise={nt} method={method} levy={levy} adaptive={adaptive} logqp={logqp}"
        with Monitors() as mon:
            try:
                out = torchsde.sdeint(sde, y0, ts, bm=bm, method=method, dt=0.125, adaptive=adaptive, logqp=logqp,
                                      dt_min=1e-3)
                outcome = "ran"
            except ValueError:
                outcome = "ValueError"
            except Exception as e:  # noqa
                outcome = f"{type(e).__name__}: {str(e)[:100]}"
            q, s = mon.activity()
        if ok:
            cnt["forward_accepted"] = cnt.get("forward_accepted", 0) + 1
            if outcome != "ran":
                viol.append({"mechanism": "documented_combination_rejected", "detail": f"{ctx} -> {outcome}"})
            else:
                ys = out[0] if logqp else out
                if s == 0 or q == 0 or not torch.isfinite(ys).all():
                    viol.append({"mechanism": "accepted_but_not_integrated", "detail": f"{ctx} steps={s} queries={q}"})
        else:
            cnt["forward_rejected"] = cnt.get("forward_rejected", 0) + 1
            if outcome == "ran":
                viol.append({"mechanism": "unsupported_combination_integrated", "detail": f"{ctx} steps={s}"})
            elif outcome != "ValueError":
                viol.append({"mechanism": "rejected_with_wrong_exception", "detail": f"{ctx} -> {outcome}"})
            elif q or s:
                viol.append({"mechanism": "integration_started_before_rejection",
                             "detail": f"{ctx} queries={q} steps={s}"})
    return {"violations": viol, "counters": cnt, "max": {}, "nontrivial": True, "sample": {"combos": sum(cnt.values())}}


def run_adjoint(case):
    import torchsde
    st, nt, method = case["sde_type"], case["noise_type"], case["method"]
    viol, cnt, mx = [], {}, {}
    levy = zoo.levy_for(method)
    gen = torch.Generator().manual_seed(5)
    y0v = torch.randn(2, 2, generator=gen) * 0.3
    ts = [0.0, 0.5, 1.0]
    dt = 1.0 / 64

    def grads(fn, adjoint_method="skip", use_default_bm=False):
        sde = _sde(st, nt)
        y0 = y0v.clone().requires_grad_(True)
        bm = None if use_default_bm else torchsde.BrownianInterval(0.0, 1.0, size=(2, sde.m), entropy=11,
                                                                    levy_area_approximation=levy)
        kw = {} if adjoint_method == "skip" else {"adjoint_method": adjoint_method}
        ys = fn(sde, y0, ts, bm=bm, method=method, dt=dt, **kw)
        loss = (ys[1:] ** 2).sum()
        loss.backward()
        return torch.cat([y0.grad.flatten()] + [(p.grad if p.grad is not None else torch.zeros_like(p)).flatten()
                          for p in sde.parameters()])

    ref = grads(torchsde.sdeint)
    for am in [None] + METHODS:
        ctx = f"sde_type={st} noise={nt} method={method} adjoint_method={am}"
        eff = am
        if am is None:
            eff = ("adjoint_reversible_heun" if method == "reversible_heun"
                   else DEFAULT_ADJOINT[(st, nt)] if st == "ito" else "midpoint")
        ok = adjoint_ok(st, nt, method, eff)
        with Monitors() as mon:
            try:
                g = grads(torchsde.sdeint_adjoint, am)
                outcome = "ran"
            except Exception as e:  # noqa
                outcome = f"{type(e).__name__}: {str(e)[:80]}"
        if ok:
            cnt["adjoint_supported"] = cnt.get("adjoint_supported", 0) + 1
            if outcome != "ran":
                viol.append({"mechanism": "supported_adjoint_refused", "detail": f"{ctx} -> {outcome}"})
            else:
                rel = float((g - ref).norm() / ref.norm())
                mx["adjoint_vs_backprop_rel"] = max(mx.get("adjoint_vs_backprop_rel", 0), rel)
                if not (math.isfinite(rel) and rel < 0.1):
                    viol.append({"mechanism": "supported_adjoint_wrong_gradient", "detail": f"{ctx} rel={rel:.3f}"})
        else:
            cnt["adjoint_refused"] = cnt.get("adjoint_refused", 0) + 1
            if outcome == "ran":
                viol.append({"mechanism": "unsupported_adjoint_silently_integrated", "detail": ctx})
    return {"violations": viol, "counters": cnt, "max": mx, "nontrivial": True,
            "sample": {"method": method, **cnt, **mx}}


def run_adjoint_bad_forward(case):
    """sdeint_adjoint must reject an unsupported FORWARD combination exactly like sdeint (ValueError, no activity)."""
    import torchsde
    st, nt = case["sde_type"], case["noise_type"]
    viol, cnt = [], {}
    sde = _sde(st, nt)
    for method, levy in itertools.product(METHODS, LEVIES):
        if forward_ok(st, nt, method, levy):
            continue
        bm = None if levy is None else torchsde.BrownianInterval(0.0, 0.25, size=(2, sde.m), entropy=3,
                                                                  levy_area_approximation=levy)
        y0 = torch.full((2, 2), 0.3, requires_grad=True)
        ctx = f"sdeint_adjoint sde_type={st} noise={nt} method={method} levy={levy}"
        with Monitors() as mon:
            try:
                torchsde.sdeint_adjoint(sde, y0, [0.0, 0.25], bm=bm, method=method, dt=0.125)
                outcome = "ran"
            except ValueError:
                outcome = "ValueError"
            except Exception as e:  # noqa
                outcome = f"{type(e).__name__}: {str(e)[:100]}"
            q, s = mon.activity()
        cnt["forward_rejected"] = cnt.get("forward_rejected", 0) + 1
        if outcome == "ran":
            viol.append({"mechanism": "unsupported_combination_integrated", "detail": ctx})
        elif outcome != "ValueError":
            viol.append({"mechanism": "rejected_with_wrong_exception", "detail": f"{ctx} -> {outcome}"})
        elif q or s:
            viol.append({"mechanism": "integration_started_before_rejection", "detail": f"{ctx} queries={q} steps={s}"})
    return {"violations": viol, "counters": cnt, "max": {}, "nontrivial": True, "sample": cnt}


class _Obj:
    pass


def _malformed_classes():
    """(name, builder) -> builder returns kwargs for the entry point; every one must raise ValueError."""
    import torchsde

    def base(nt="diagonal", st="ito", **over):
        sde = _sde(st, nt)
        # the base call is VALID (checked by the "control" class below): every class changes exactly one thing
        kw = dict(sde=sde, y0=torch.zeros(2, 2), ts=[0.0, 0.5], dt=0.25, method="euler" if st == "ito" else "midpoint",
                  bm=torchsde.BrownianInterval(0.0, 0.5, size=(2, sde.m), entropy=1,
                                               levy_area_approximation="space-time"))
        kw.update(over)
        return kw

    def plain(**attrs):
        o = _Obj()
        s = _sde("ito", "diagonal")
        o.noise_type, o.sde_type, o.f, o.g = "diagonal", "ito", s.f, s.g
        for k, v in attrs.items():
            if v is None:
                delattr(o, k)
            else:
                setattr(o, k, v)
        return o

    def wrong_f(t, y):
        return torch.zeros(y.size(0), y.size(1) + 1)

    def g2d(t, y):
        return torch.zeros(y.size(0), y.size(1))

    def g3d(t, y):
        return torch.zeros(y.size(0), y.size(1), 2)

    def g_badbatch(t, y):
        return torch.zeros(y.size(0) + 1, y.size(1))

    C = [
        ("control", lambda: base()),
        ("control_general", lambda: base(nt="general")),
        ("ts_equal", lambda: base(ts=[0.0, 0.5, 0.5])),
        ("ts_equal_at_start", lambda: base(ts=[0.0, 0.0, 0.5])),
        ("ts_equal_interior_tuple", lambda: base(ts=(0.0, 0.25, 0.25, 0.5))),
        ("ts_tensor_equal", lambda: base(ts=torch.tensor([0.0, 0.25, 0.25, 0.5]))),
        ("ts_decreasing", lambda: base(ts=[0.5, 0.0])),
        ("ts_tensor_not_increasing", lambda: base(ts=torch.tensor([0.0, 0.3, 0.2]))),
        ("ts_strings", lambda: base(ts=["a", "b"])),
        ("ts_not_sequence", lambda: base(ts=0.5)),
        ("ts_requires_grad", lambda: base(ts=torch.tensor([0.0, 0.5], requires_grad=True))),
        ("dt_requires_grad", lambda: base(dt=torch.tensor(0.25, requires_grad=True))),
        ("rtol_requires_grad", lambda: base(rtol=torch.tensor(1e-3, requires_grad=True))),
        ("atol_requires_grad", lambda: base(atol=torch.tensor(1e-3, requires_grad=True))),
        ("dt_min_requires_grad", lambda: base(dt_min=torch.tensor(1e-3, requires_grad=True))),
        ("y0_1d", lambda: base(y0=torch.zeros(2))),
        ("y0_3d", lambda: base(y0=torch.zeros(2, 2, 1))),
        ("y0_not_tensor", lambda: base(y0=[[0.0, 0.0]])),
        ("bm_batch_mismatch", lambda: base(bm=torchsde.BrownianInterval(0.0, 0.5, size=(3, 2), entropy=1))),
        ("bm_batch_one_broadcastable", lambda: base(bm=torchsde.BrownianInterval(0.0, 0.5, size=(1, 2), entropy=1,
                                                                             levy_area_approximation="space-time"))),
        ("bm_noise_mismatch", lambda: base(bm=torchsde.BrownianInterval(0.0, 0.5, size=(2, 3), entropy=1))),
        ("bm_1d", lambda: base(bm=torchsde.BrownianInterval(0.0, 0.5, size=(2,), entropy=1))),
        ("drift_state_mismatch", lambda: base(sde=plain(f=wrong_f))),
        ("diffusion_3d_for_diagonal", lambda: base(sde=plain(g=g3d))),
        ("diffusion_2d_for_general", lambda: base(sde=plain(noise_type="general", g=g2d))),
        ("diffusion_batch_mismatch", lambda: base(sde=plain(g=g_badbatch))),
        ("scalar_noise_two_channels", lambda: base(
            sde=plain(noise_type="scalar", g=g3d), bm=torchsde.BrownianInterval(0.0, 0.5, size=(2, 2), entropy=1))),
        ("scalar_noise_g_prod_only_two_channel_bm", lambda: base(
            sde=plain(noise_type="scalar", g=None, g_prod=lambda t, y, v: 0.1 * y * v),
            bm=torchsde.BrownianInterval(0.0, 0.5, size=(2, 2), entropy=1, levy_area_approximation="space-time"))),
        ("ts_requires_grad_other_dtype", lambda: base(ts=torch.tensor([0.0, 0.5], dtype=torch.float32,
                                                                    requires_grad=True))),
        ("missing_drift", lambda: base(sde=plain(f=None))),
        ("missing_diffusion", lambda: base(sde=plain(g=None))),
        ("missing_noise_type", lambda: base(sde=plain(noise_type=None))),
        ("invalid_noise_type", lambda: base(sde=plain(noise_type="fancy"))),
        ("missing_sde_type", lambda: base(sde=plain(sde_type=None))),
        ("invalid_sde_type", lambda: base(sde=plain(sde_type="backward"))),
        ("invalid_method", lambda: base(method="rk45")),
        ("method_of_other_calculus", lambda: base(method="midpoint")),
        ("general_noise_with_milstein", lambda: base(nt="general", method="milstein")),
    ]
    return C


def run_malformed(case):
    import torchsde
    entry = getattr(torchsde, case["entry"])
    viol, cnt = [], {}
    for name, build in _malformed_classes():
        kw = build()
        sde = kw.pop("sde")
        y0 = kw.pop("y0")
        ts = kw.pop("ts")
        if case["entry"] == "sdeint_adjoint" and not isinstance(sde, nn.Module):
            kw["adjoint_params"] = ()
        if case.get("warm") and not name.startswith("control"):
            import torchsde as _ts
            good = dict(dt=0.25, method=kw.get("method", "euler"),
                        bm=_ts.BrownianInterval(0.0, 0.5, size=(2, 2), entropy=1, levy_area_approximation="space-time"))
            if "adjoint_params" in kw:
                good["adjoint_params"] = kw["adjoint_params"]
            try:
                entry(sde, torch.zeros(2, 2), [0.0, 0.5], **good)
                cnt["malformed_after_valid_call_on_same_object"] = cnt.get("malformed_after_valid_call_on_same_object", 0) + 1
            except Exception:  # noqa  (classes whose SDE object itself is malformed have no valid call)
                pass
        with Monitors() as mon:
            try:
                entry(sde, y0, ts, **kw)
                outcome = "ran"
            except ValueError:
                outcome = "ValueError"
            except Exception as e:  # noqa
                outcome = f"{type(e).__name__}: {str(e)[:120]}"
            q, s = mon.activity()
        ctx = f"{case['entry']} class={name}"
        if name.startswith("control"):
            # the unmodified base call must be accepted, otherwise every class below is rejected for the wrong reason
            cnt["malformed_base_call_accepted"] = cnt.get("malformed_base_call_accepted", 0) + int(outcome == "ran")
            if outcome != "ran":
                return {"inconclusive": [f"the base call of the malformed-input classes is itself rejected: {ctx} -> {outcome}"]}
            continue
        cnt["malformed"] = cnt.get("malformed", 0) + 1
        if outcome == "ran":
            viol.append({"mechanism": f"malformed_input_accepted:{name}", "detail": ctx})
        elif outcome != "ValueError":
            viol.append({"mechanism": f"malformed_input_wrong_exception:{name}", "detail": f"{ctx} -> {outcome}"})
        elif q or s:
            viol.append({"mechanism": f"integration_started_before_rejection:{name}",
                         "detail": f"{ctx} queries={q} steps={s}"})
    if case["entry"] == "sdeint_adjoint":
        # non-Module sde without adjoint_params
        o = _Obj()
        s_ = _sde("ito", "diagonal")
        o.noise_type, o.sde_type, o.f, o.g = "diagonal", "ito", s_.f, s_.g
        try:
            torchsde.sdeint_adjoint(o, torch.zeros(2, 2), [0.0, 0.5], dt=0.25)
            viol.append({"mechanism": "malformed_input_accepted:non_module_without_adjoint_params", "detail": ""})
        except ValueError:
            cnt["malformed"] += 1
        except Exception as e:  # noqa
            viol.append({"mechanism": "malformed_input_wrong_exception:non_module_without_adjoint_params",
                         "detail": type(e).__name__})
    return {"violations": viol, "counters": cnt, "max": {}, "nontrivial": True, "sample": cnt}


def run_defaults(case):
    import torchsde
    viol, cnt = [], {}
    for st in ("ito", "stratonovich"):
        for nt in zoo.NOISE_TYPES:
            sde = _sde(st, nt)
            want = DEFAULT_METHOD[(st, nt)] if st == "ito" else "midpoint"
            with Monitors() as mon:
                torchsde.sdeint(sde, torch.zeros(2, 2), [0.0, 0.25], dt=0.125)
            got = [c[0] for c in mon.sp.select_calls]
            cnt["defaults_checked"] = cnt.get("defaults_checked", 0) + 1
            if got != [want]:
                viol.append({"mechanism": "wrong_default_method", "detail": f"{st}/{nt}: {got} want {want}"})
            # adjoint defaults (forward default + adjoint default), and after reversible_heun
            for fwd in ([None] if st == "ito" else [None, "reversible_heun"]):
                y0 = torch.zeros(2, 2, requires_grad=True)
                with Monitors() as mon:
                    ys = torchsde.sdeint_adjoint(sde, y0, [0.0, 0.25], dt=0.125, method=fwd)
                    ys.sum().backward()
                got = [c[0] for c in mon.sp.select_calls]
                want_f = fwd or want
                want_a = ("adjoint_reversible_heun" if fwd == "reversible_heun"
                          else DEFAULT_ADJOINT[(st, nt)] if st == "ito" else "midpoint")
                cnt["defaults_checked"] += 1
                if got != [want_f, want_a]:
                    viol.append({"mechanism": "wrong_default_adjoint_method",
                                 "detail": f"{st}/{nt}/fwd={fwd}: {got} want {[want_f, want_a]}"})
    return {"violations": viol, "counters": cnt, "max": {}, "nontrivial": True, "sample": cnt}


def run_case(case):
    return {"forward": run_forward, "adjoint": run_adjoint, "adjoint_bad_forward": run_adjoint_bad_forward,
            "malformed": run_malformed, "defaults": run_defaults}[case["kind"]](case)
