"""C12 - outputs lie on one dt-grid trajectory: grid model, interpolation, output-time invariance.

Monitor: SolverProbe logs every step (t0, t1, y0, y1) of the real solver; a reference model of the step grid and
of linear interpolation is checked against the log and against what sdeint returns.
"""
import random

import torch

from .. import ride  # noqa: E402
from .. import env, probes, zoo

ID = "C12"
LEVEL = "exploration"
RULE = ("case = (solver x noise cell, dtype pair, ts layout, dt) from VERIF_SEED; non-trivial = the run took >= 3 steps "
        "and returned >= 1 output strictly inside a step and >= 1 interior output; distinct = distinct case keys")
ASSUMPTIONS = ["grid model: contiguous steps from ts[0]; every step but the last satisfies t1 = t0 + dt in ts's dtype; "
               "the last ends exactly at ts[-1] and is no longer than dt*(1+1e-6)",
               "interpolation compared to an independent float64 interpolant: 1e-13 (float64 state) / 2e-5 (float32)"]
REQUIRED_COUNTERS = ["ride_c12_integrate_calls", "ride_c12_outputs_inside_step", "steps", "outputs_inside_step", "outputs_on_grid", "variant_shared_outputs", "ts_list", "ts_f32",
                     "y_f32", "several_outputs_one_step", "dt_larger_than_T", "outputs_inside_clipped_last_step",
                     "first_gap_smaller_than_dt", "default_dtype_float32_cases", "list_ts_f64_state_under_default_f32",
                     "via_sdeint_adjoint", "float32_brownian_float64_state", "y0_non_contiguous"]
THRESHOLDS = {"interp_f64": 1e-13, "interp_f32": 2e-5}


def cases(tier, seed):
    cells = zoo.matrix()
    reps = 4 if tier == "quick" else 360
    out = []
    for ci, cell in enumerate(cells):
        for r in range(reps):
            out.append({"key": f"{zoo.cell_name(cell)}-{r}", "cell": cell, "rseed": hash((seed, ci, r)) % (2 ** 31)})
    out += ride.cases_for("C12", tier, seed)  # the repository's own tests under passive monitors
    return out


def _mk_ts(rng, t0, T, layout, dt):
    if layout == "two":
        return [t0, t0 + T]
    if layout == "aligned":
        k = max(1, int(T / dt))
        idx = sorted(rng.sample(range(1, k), min(k - 1, rng.choice([1, 3, 5])))) if k > 1 else []
        return [t0] + [t0 + i * dt for i in idx] + [t0 + T]
    if layout == "cluster":  # several outputs inside one step
        base = t0 + rng.uniform(0.1, 0.6) * T
        pts = sorted({base + dt * u for u in (0.1, 0.35, 0.5, 0.8)})
        pts = [p for p in pts if t0 < p < t0 + T]
        return [t0] + pts + [t0 + T]
    if layout == "last_step":  # outputs strictly inside the last (possibly clipped, shorter than dt) step
        k = int(T / dt - 1e-9)
        lo = t0 + k * dt
        pts = sorted({lo + (t0 + T - lo) * u for u in (0.25, 0.6)})
        pts = [p for p in pts if t0 < p < t0 + T]
        first = [t0 + 0.3 * min(dt, T)] if rng.random() < 0.5 else []  # (and a first gap smaller than dt)
        return [t0] + sorted({p for p in first + pts if t0 < p < t0 + T}) + [t0 + T]
    n = rng.choice([2, 4, 9])
    pts = sorted({t0 + rng.uniform(0.02, 0.98) * T for _ in range(n)})
    return [t0] + pts + [t0 + T]


def run_case(case):
    if case.get("kind") == "ride":
        return ride.run_case(case)
    import torchsde
    cell = case["cell"]
    rng = random.Random(case["rseed"])
    viol, cnt, mx = [], {}, {}
    d, m, B = rng.choice([1, 2, 3]), rng.choice([1, 2, 3]), rng.choice([1, 2, 4])
    ydt = torch.float32 if rng.random() < 0.25 else torch.float64
    tdt = rng.choice(["list", "tuple", "f64", "f64", "f32"])
    t0 = rng.choice([0.0, -1.0, 2.5, 0.0, -1.0, 2.5, 1200.0])
    T = rng.choice([1.0, 0.5, 2.0])
    dt = rng.choice([0.1, 0.05, 0.125, 0.3, 0.07, T * 1.7, 0.013])
    layout = rng.choice(["two", "aligned", "random", "random", "cluster", "last_step"])
    sde = zoo.cell_sde(cell, d=d, m=m, seed=rng.randrange(10 ** 6), gscale=0.5)
    tsl = _mk_ts(rng, t0, T, layout, dt)
    # (times that coincide in the dtype the library will take them in - float32 tensors, or lists with a float32 state -
    # are not strictly increasing there: such layouts are made legal by dropping the duplicates; found by the thorough
    # tier as a harness error, t0 = 1200 in float32)
    lib_dt = torch.float32 if (tdt == "f32" or (tdt in ("list", "tuple") and ydt == torch.float32)) else torch.float64

    def canon(lst):
        seen, out_ = set(), []
        for x in lst:
            k = float(torch.tensor(x, dtype=lib_dt))
            if k not in seen:
                seen.add(k)
                out_.append(x)
        return out_
    tsl = canon(tsl)
    if len(tsl) < 2:
        return {"violations": [], "counters": {}, "nontrivial": False}
    entropy = rng.randrange(1, 10 ** 9)
    y0 = torch.randn(B, d, dtype=ydt, generator=torch.Generator().manual_seed(case["rseed"]))
    # the initial state may be any tensor layout (a transposed view, a stride-0 expansion); inputs are never modified
    layout_y0 = rng.choice(["contiguous", "contiguous", "transposed_view", "expanded"])
    if layout_y0 == "transposed_view":
        y0 = y0.t().contiguous().t()
    elif layout_y0 == "expanded":
        y0 = y0[:1].expand(B, d)
    cnt["y0_non_contiguous"] = int(not y0.is_contiguous())
    y0_before = y0.clone()

    def as_ts(lst):
        if tdt == "list":
            return list(lst)
        if tdt == "tuple":
            return tuple(lst)
        return torch.tensor(lst, dtype=torch.float32 if tdt == "f32" else torch.float64)

    # the process-wide default dtype is not part of the contract: a list of times is taken in y0's dtype whatever
    # torch.get_default_dtype() says (the harness default is float64; a third of the cases run under float32)
    # mixed precision the library accepts: element-wise diffusion, float64 state driven by a float32 Brownian motion -
    # the result is still in y0's dtype
    bm_f32 = cell["noise_type"] == "diagonal" and ydt == torch.float64 and rng.random() < 0.3
    cnt["float32_brownian_float64_state"] = int(bm_f32)
    # the same grid contract holds for the forward pass of sdeint_adjoint (a quarter of the cases)
    via_adjoint = rng.random() < 0.25
    cnt["via_sdeint_adjoint"] = int(via_adjoint)
    under_f32 = rng.random() < 0.35
    cnt["default_dtype_float32_cases"] = int(under_f32)
    cnt["list_ts_f64_state_under_default_f32"] = int(under_f32 and tdt in ("list", "tuple") and ydt == torch.float64)

    def run(lst):
        ts = as_ts(lst)
        pr = probes.SolverProbe()
        ts_t = ts if torch.is_tensor(ts) else torch.tensor(ts, dtype=ydt)
        bm = torchsde.BrownianInterval(t0=float(ts_t[0]), t1=float(ts_t[-1]), size=(B, sde.m),
                                       dtype=torch.float32 if bm_f32 else ydt,
                                       entropy=entropy, levy_area_approximation=zoo.levy_for(cell["method"]))
        with env.default_dtype(torch.float32 if under_f32 else torch.float64), pr.installed():
            ys = zoo.solve(cell, sde, y0, ts, dt, bm=bm, adjoint=via_adjoint)
        if via_adjoint:
            # the probe sees only the forward solver as long as nothing is back-propagated
            pr.steps = [s_ for s_ in pr.steps if s_["solver"] == 0]
            ys = ys.detach()
        return ys, pr, ts_t

    ys, pr, ts_t = run(tsl)
    steps = pr.steps
    if not torch.equal(y0, y0_before):
        viol.append({"mechanism": "input_state_modified", "detail": f"y0 ({layout_y0}) changed during sdeint"})
    ctx = f"cell={zoo.cell_name(cell)} ts={tsl} dt={dt} tdt={tdt} ydt={ydt} B={B} d={d} f32_bm={bm_f32}"
    cnt["steps"] = len(steps)
    cnt["ts_list"] = int(tdt in ("list", "tuple"))
    cnt["ts_f32"] = int(tdt == "f32")
    cnt["y_f32"] = int(ydt == torch.float32)
    cnt["dt_larger_than_T"] = int(dt > T)
    cnt["first_gap_smaller_than_dt"] = int(len(tsl) >= 3 and tsl[1] - tsl[0] < dt)
    # shape / dtype
    if tuple(ys.shape) != (len(tsl), B, d) or ys.dtype != ydt:
        viol.append({"mechanism": "shape_or_dtype", "detail": f"{tuple(ys.shape)} {ys.dtype} {ctx}"})
        return {"violations": viol, "counters": cnt}
    if not torch.equal(ys[0], y0):
        viol.append({"mechanism": "ys0_not_y0", "detail": ctx})
    # grid model
    bad = None
    for i, s in enumerate(steps):
        prev = steps[i - 1]["t1_raw"] if i else ts_t[0]
        if not (torch.as_tensor(s["t0_raw"]) == torch.as_tensor(prev)):
            bad = f"step {i} starts at {s['t0']!r}, previous ended at {float(prev)!r}"
            break
        if i < len(steps) - 1:
            if not (torch.as_tensor(s["t1_raw"]) == torch.as_tensor(s["t0_raw"]) + dt):
                bad = f"step {i}: t1={s['t1']!r} != t0+dt={float(torch.as_tensor(s['t0_raw']) + dt)!r}"
                break
        else:
            if not (torch.as_tensor(s["t1_raw"]) == ts_t[-1]):
                bad = f"last step ends at {s['t1']!r}, ts[-1]={float(ts_t[-1])!r}"
            elif not (0 < s["t1"] - s["t0"] <= dt * (1 + 1e-6) + 1e-12 * abs(s["t1"])):
                eps32 = 1.2e-7 * max(1.0, abs(s["t1"])) if ts_t.dtype == torch.float32 else 0.0
                if not (0 < s["t1"] - s["t0"] <= dt * (1 + 1e-6) + 4 * eps32):
                    bad = f"last step length {s['t1'] - s['t0']!r} > dt={dt}"
    # the time arithmetic is done in the dtype of ts (a list is taken in y0's dtype): all logged step times carry it
    for i, s_ in enumerate(steps):
        for nm in ("t0_raw", "t1_raw"):
            if torch.is_tensor(s_[nm]) and s_[nm].dtype != ts_t.dtype and not bad:
                bad = f"step {i}: {nm} has dtype {s_[nm].dtype}, the times were given as {ts_t.dtype}"
    if not steps:
        bad = "no steps logged"
    if bad:
        viol.append({"mechanism": "grid_model_mismatch", "detail": f"{bad} {ctx}"})
    # outputs: on-grid / interpolated
    tol = THRESHOLDS["interp_f32"] if ydt == torch.float32 else THRESHOLDS["interp_f64"]
    per_step = {}
    for j in range(1, len(tsl)):
        t = ts_t[j]
        k = next((i for i, s in enumerate(steps) if torch.as_tensor(s["t1_raw"]) >= t), None)
        if k is None:
            viol.append({"mechanism": "output_beyond_last_step", "detail": ctx})
            continue
        s = steps[k]
        per_step[k] = per_step.get(k, 0) + 1
        if torch.as_tensor(s["t1_raw"]) == t:
            cnt["outputs_on_grid"] = cnt.get("outputs_on_grid", 0) + 1
            if not torch.equal(ys[j], s["y1"].detach()):
                viol.append({"mechanism": "grid_output_not_grid_state",
                             "detail": f"out {j} diff {float((ys[j] - s['y1']).abs().max()):.3e} {ctx}"})
        else:
            cnt["outputs_inside_step"] = cnt.get("outputs_inside_step", 0) + 1
            ta, tb, tt = float(s["t0_raw"]), float(s["t1_raw"]), float(t)
            if k == len(steps) - 1 and (tb - ta) < 0.999 * dt:
                cnt["outputs_inside_clipped_last_step"] = cnt.get("outputs_inside_clipped_last_step", 0) + 1
            w = (tt - ta) / (tb - ta)
            ya, yb = s["y0"].detach().double(), s["y1"].detach().double()
            want = ya + w * (yb - ya)
            e = float(((ys[j].double() - want).abs() / (1 + want.abs())).max())
            mx["interp_err_" + ("f32" if ydt == torch.float32 else "f64")] = e
            tol_j = tol * (1 + (1e-7 / max(tb - ta, 1e-30) if ts_t.dtype == torch.float32 else 0) * 1e2)
            if ts_t.dtype == torch.float32 and ydt == torch.float64:
                tol_j = 2e-5  # interpolation weights are computed in float32 time arithmetic
            if not e <= tol_j:
                viol.append({"mechanism": "interpolation_mismatch", "detail": f"out {j} err {e:.3e} w={w:.4f} {ctx}"})
    if any(v >= 2 for v in per_step.values()):
        cnt["several_outputs_one_step"] = 1
    # output-time invariance: a second layout sharing some output times
    keep = [t for t in tsl[1:-1] if rng.random() < 0.5]
    extra = [t0 + rng.uniform(0.02, 0.98) * T for _ in range(rng.choice([0, 1, 3]))]
    ts2 = canon(sorted(set([tsl[0], tsl[-1]] + keep + extra)))
    ys2, pr2, ts2_t = run(ts2)
    g1 = [(s["t0"], s["t1"]) for s in steps]
    g2 = [(s["t0"], s["t1"]) for s in pr2.steps]
    if g1 != g2:
        viol.append({"mechanism": "grid_depends_on_output_times", "detail": f"{len(g1)} vs {len(g2)} steps {ctx} ts2={ts2}"})
    for j, t in enumerate(tsl):
        if t in ts2:
            j2 = ts2.index(t)
            if ts_t[j] == ts2_t[j2]:
                cnt["variant_shared_outputs"] = cnt.get("variant_shared_outputs", 0) + 1
                if not torch.equal(ys[j], ys2[j2]):
                    viol.append({"mechanism": "output_changes_with_other_output_times",
                                 "detail": f"t={t} diff {float((ys[j] - ys2[j2]).abs().max()):.3e} {ctx} ts2={ts2}"})
    nt = len(steps) >= 3 and cnt.get("outputs_inside_step", 0) >= 1 and len(tsl) >= 3
    return {"violations": viol, "counters": cnt, "max": mx, "nontrivial": nt,
            "sample": {"ts": tsl, "dt": dt, "steps": len(steps), "inside": cnt.get("outputs_inside_step", 0),
                       "on_grid": cnt.get("outputs_on_grid", 0), "ts_kind": tdt, "ydtype": str(ydt)}}
