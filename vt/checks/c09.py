"""C09 - adjoint: same forward values as sdeint; gradients converge to the true gradient.

(a) differential monitor: sdeint_adjoint forward outputs torch.equal to sdeint with an equal-entropy Brownian object
    (every solver x noise cell, 2 / many output times, logqp on/off, extra state);
(b) gradient-convergence monitor: gradients from sdeint_adjoint for losses on subsets of the output times against
    closed-form gradients (autograd through the exact solution on the same Brownian path) for dt = 2^-4..2^-8 (2^-9 for
    order-0.5 adjoint solvers), every
    admissible (method, adjoint_method) pair; plus generic neural SDEs against backprop through sdeint at dt/16;
(c) only the tensors asked for receive gradients.
"""
import math
import random

import torch

from .. import closed_forms as cf
from .. import env, probes, zoo

ID = "C09"
LEVEL = "exploration"
RULE = ("case = forward-equality (cell, ts layout, logqp) | gradient convergence (sde_type, noise_type, family, method, "
        "adjoint_method, loss subset) | selectivity scenario; non-trivial = outputs compared over >= 3 steps (a), five "
        "step sizes measured with a true gradient of norm > 1e-3 (b), >= 3 tensors inspected (c); distinct = distinct "
        "case keys")
ASSUMPTIONS = ["gradient error = relative RMS over B=128 paths of the per-path gradient vectors (y0 row and that path's own "
               "parameter copies), same Brownian object at all step sizes; required: fitted slope >= 0.2, error at the finest level at most half the error at dt=2^-4 and below 0.15 "
               "(order-0.5 adjoint solvers) / 0.05 (others); or already below 2e-3 at every level",
               "closed-form gradients by autograd through vt/closed_forms.py exact solutions"]
REQUIRED_COUNTERS = ["forward_equal_checks", "logqp_forward_checks", "gradient_ladders", "subset_losses",
                     "neural_reference_ladders", "selectivity_cases", "pairs_ito", "pairs_stratonovich",
                     "forward_list_ts_under_default_f32", "forward_equal_adaptive_checks",
                     "adjoint_adaptive_gradients", "forward_with_adjoint_adaptive_requested",
                     "neural_logqp_ladders", "extra_state_loss_cases"]
THRESHOLDS = {"slope": 0.2, "final_half": 0.15, "final_one": 0.05, "final_over_first": 0.5, "already_small": 2e-3}

ITO_FWD = ["euler", "milstein", "srk"]
STRAT_FWD = ["euler_heun", "heun", "midpoint", "milstein", "reversible_heun", "log_ode"]


def adj_methods(sde_type, noise_type, fwd):
    if sde_type == "ito":
        out = ["euler"] + (["milstein"] if noise_type == "diagonal" else [])
    else:
        out = ["euler_heun", "heun", "midpoint"] + (["milstein"] if noise_type == "diagonal" else [])
        if fwd == "reversible_heun":
            out.append("adjoint_reversible_heun")
    return out


def cases(tier, seed):
    out = []
    for ci, cell in enumerate(zoo.matrix()):
        for layout in ("two", "many"):
            out.append({"key": f"fwd-{zoo.cell_name(cell)}-{layout}", "kind": "forward", "cell": cell, "layout": layout,
                        "rseed": hash((seed, ci, layout == "two")) % (2 ** 31), "cost": 1})
    k = 0
    for st, fwds in (("ito", ITO_FWD), ("stratonovich", STRAT_FWD)):
        for nt in zoo.NOISE_TYPES:
            fams = [n for n, _ in cf.families_for(nt, st)]
            for fwd in fwds:
                if not zoo.accepted(st, fwd, nt):
                    continue
                for am in adj_methods(st, nt, fwd):
                    k += 1
                    # quick: one family per pair (rotating); thorough: all families
                    fl = fams if tier == "thorough" else [fams[k % len(fams)]]
                    for fam in fl:
                        out.append({"key": f"grad-{st[:5]}-{nt}-{fwd}-{am}-{fam}", "kind": "grad", "sde_type": st,
                                    "noise_type": nt, "method": fwd, "adjoint_method": am, "family": fam,
                                    "rseed": hash((seed, k, fams.index(fam))) % (2 ** 31), "cost": 6})
            # generic neural SDE against fine backprop
            out.append({"key": f"neural-{st[:5]}-{nt}", "kind": "neural", "sde_type": st, "noise_type": nt,
                        "rseed": hash((seed, 4242, st == "ito", zoo.NOISE_TYPES.index(nt))) % (2 ** 31), "cost": 10})
            out.append({"key": f"neural-logqp-{st[:5]}-{nt}", "kind": "neural", "sde_type": st, "noise_type": nt,
                        "logqp": True, "rseed": hash((seed, 4343, st == "ito", zoo.NOISE_TYPES.index(nt))) % (2 ** 31),
                        "cost": 12})
    for i in range(16 if tier == "quick" else 200):
        out.append({"key": f"select-{i}", "kind": "select", "rseed": hash((seed, 777, i)) % (2 ** 31), "cost": 1})
    return out


def run_forward(case):
    import torchsde
    cell = case["cell"]
    rng = random.Random(case["rseed"])
    viol, cnt = [], {}
    d, m, B = 3, 2, 2
    sde = zoo.cell_sde(cell, d=d, m=m, seed=rng.randrange(10 ** 6), gscale=0.6)
    tsl = [0.0, 0.5] if case["layout"] == "two" else [0.0, 0.13, 0.2, 0.37, 0.5]
    ts = torch.tensor(tsl)
    dt = rng.choice([0.1, 0.05])
    entropy = rng.randrange(1, 10 ** 9)
    y0 = torch.randn(B, d, generator=torch.Generator().manual_seed(case["rseed"]))
    levy = zoo.levy_for(cell["method"])
    # a share of the cases hands the times over as a Python list under PyTorch's default dtype float32 (data float64):
    # both entry points must take the times in y0's dtype
    lists = rng.random() < 0.4
    cnt["forward_list_ts_under_default_f32"] = int(lists)
    tsx = tsl if lists else ts
    adj_ad = rng.random() < 0.5
    cnt["forward_with_adjoint_adaptive_requested"] = int(adj_ad)
    for logqp in (False, True):
        msize = sde.m + (1 if (logqp and cell["noise_type"] == "diagonal") else 0)

        def mk():
            return torchsde.BrownianInterval(0.0, 0.5, size=(B, msize), entropy=entropy, levy_area_approximation=levy,
                                             dtype=torch.float64)
        with env.default_dtype(torch.float32 if lists else torch.float64):
            with torch.no_grad():
                ref = zoo.solve(cell, sde, y0, tsx, dt, bm=mk(), logqp=logqp, extra=True)
            # (requesting an adaptive BACKWARD solve must not change the fixed-step forward solve)
            out = zoo.solve(cell, sde, y0.clone().requires_grad_(True), tsx, dt, bm=mk(), logqp=logqp, extra=True,
                            adjoint=True, adjoint_adaptive=adj_ad)
        # the same with adaptive stepping (the forward pass of the adjoint is the plain adaptive solve)
        akw = dict(adaptive=True, rtol=1e-3, atol=1e-4, dt_min=1e-4)
        with env.default_dtype(torch.float32 if lists else torch.float64):
            with torch.no_grad():
                ref_a = zoo.solve(cell, sde, y0, tsx, dt, bm=mk(), logqp=logqp, **akw)
            out_a = zoo.solve(cell, sde, y0.clone().requires_grad_(True), tsx, dt, bm=mk(), logqp=logqp, adjoint=True,
                              adjoint_rtol=1e-1, adjoint_atol=1e-1, **akw)
        ra, oa = (ref_a, out_a) if logqp else ((ref_a,), (out_a,))
        cnt["forward_equal_adaptive_checks"] = cnt.get("forward_equal_adaptive_checks", 0) + 1
        if not all(torch.equal(a, b.detach()) for a, b in zip(ra, oa)):
            viol.append({"mechanism": "adjoint_forward_differs_from_sdeint:adaptive",
                         "detail": f"cell={zoo.cell_name(cell)} ts={tsl} dt={dt} logqp={logqp}"})
        names = ["ys"] + (["logqp"] if logqp else []) + ["extra"]
        for nm, a, b in zip(names, ref, out):
            if nm == "extra":
                same = len(a) == len(b) and all(torch.equal(x, y.detach()) for x, y in zip(a, b))
            else:
                same = torch.equal(a, b.detach())
            cnt["forward_equal_checks"] = cnt.get("forward_equal_checks", 0) + 1
            if logqp:
                cnt["logqp_forward_checks"] = cnt.get("logqp_forward_checks", 0) + 1
            if not same:
                viol.append({"mechanism": f"adjoint_forward_differs_from_sdeint:{nm}",
                             "detail": f"cell={zoo.cell_name(cell)} ts={tsl} dt={dt} logqp={logqp}"})
    return {"violations": viol, "counters": cnt, "max": {}, "nontrivial": True,
            "sample": {"cell": zoo.cell_name(cell), "ts": tsl, "dt": dt, **cnt}}


def _flat_grads(loss, y0, params):
    gs = torch.autograd.grad(loss, [y0] + params, allow_unused=True)
    return torch.cat([(g if g is not None else torch.zeros_like(p)).flatten() for g, p in zip(gs, [y0] + params)])


def _path_grads(loss, y0, params, per_path):
    """(B, P) matrix of per-path gradients: rows of dL/dy0 and of every per-path parameter (shape (B, ...))."""
    gs = torch.autograd.grad(loss, [y0] + params, allow_unused=True)
    B = y0.size(0)
    cols = []
    for g, p, pp in zip(gs, [y0] + params, [True] + per_path):
        g = g if g is not None else torch.zeros_like(p)
        if pp:
            cols.append(g.reshape(B, -1))
    shared = [(g if g is not None else torch.zeros_like(p)).flatten()
              for g, p, pp in zip(gs, [y0] + params, [True] + per_path) if not pp]
    return torch.cat(cols, 1), (torch.cat(shared) if shared else torch.zeros(0))


def _rel_rms(G, Gt):
    """relative RMS error over paths of the per-path gradient vectors"""
    return float(((G - Gt) ** 2).sum(1).mean().sqrt() / (Gt ** 2).sum(1).mean().sqrt())


def _ladder(sde, method, adjoint_method, y0v, tsl, w, entropy, levy, true_grad, levels, per_path, options=None, wq=None):
    import torchsde
    params = [p for p in sde.parameters()]
    B = y0v.size(0)
    msize = sde.m + (1 if (wq is not None and sde.noise_type == "diagonal") else 0)
    base = torchsde.BrownianInterval(tsl[0], tsl[-1], size=(B, msize), entropy=entropy, levy_area_approximation=levy)
    ts = torch.tensor(tsl)
    errs, errs_shared, dts = [], [], []
    Gt, St = true_grad(base, params)
    for k in levels:
        dt = (tsl[-1] - tsl[0]) * 2.0 ** -k
        y0 = y0v.clone().requires_grad_(True)
        if wq is None:
            ys = torchsde.sdeint_adjoint(sde, y0, ts, bm=base, method=method, adjoint_method=adjoint_method, dt=dt,
                                         options=options)
            loss = (ys * w).sum()
        else:
            ys, lq = torchsde.sdeint_adjoint(sde, y0, ts, bm=base, method=method, adjoint_method=adjoint_method, dt=dt,
                                             options=options, logqp=True)
            loss = (ys * w).sum() + (lq * wq).sum()
        G, S = _path_grads(loss, y0, params, per_path)
        errs.append(_rel_rms(G, Gt))
        errs_shared.append(float((S - St).norm() / St.norm()) if St.numel() else 0.0)
        dts.append(dt)
    return errs, errs_shared, dts, float((Gt ** 2).sum(1).mean().sqrt())


def _slope(dts, errs):
    xs = [math.log(d) for d in dts]
    ys = [math.log(max(e, 1e-300)) for e in errs]
    n = len(xs)
    mx_, my = sum(xs) / n, sum(ys) / n
    return sum((x - mx_) * (y - my) for x, y in zip(xs, ys)) / sum((x - mx_) ** 2 for x in xs)


def _judge(errs, dts, half_order, ctx, viol, mech):
    sl = _slope(dts, errs)
    final_bound = THRESHOLDS["final_half"] if half_order else THRESHOLDS["final_one"]
    if max(errs) <= THRESHOLDS["already_small"]:
        return sl
    if not (sl >= THRESHOLDS["slope"] and errs[-1] <= final_bound
            and errs[-1] <= THRESHOLDS["final_over_first"] * errs[0]):
        viol.append({"mechanism": mech, "detail": f"slope {sl:.3f} errors {[f'{e:.3e}' for e in errs]} {ctx}"})
    return sl


def _weights(rng, n_out, B, d, gen):
    subset = rng.choice(["all", "last", "first_interior", "middle"])
    w = torch.randn(n_out, B, d, generator=gen)
    mask = torch.zeros(n_out)
    if subset == "all":
        mask[:] = 1
    elif subset == "last":
        mask[-1] = 1
    elif subset == "first_interior":
        mask[1] = 1
    else:
        mask[n_out // 2] = 1
    return w * mask.reshape(-1, 1, 1), subset


def run_grad(case):
    st, nt = case["sde_type"], case["noise_type"]
    rng = random.Random(case["rseed"])
    viol, cnt, mx = [], {}, {}
    B = 128
    # every path owns a copy of the parameters: per-path gradients are independent realisations of the adjoint's
    # discretisation error, so their RMS is a low-noise estimate (a summed gradient would be ONE noisy realisation)
    fam = dict(cf.families_for(nt, st, seed=rng.randrange(1000), batch=B))[case["family"]]
    gen = torch.Generator().manual_seed(case["rseed"])
    t0 = 0.25 if isinstance(fam, cf.AdditiveRN) else rng.choice([0.0, 0.5])
    tsl = [t0, t0 + 0.25, t0 + 0.5, t0 + 1.0]
    y0v = fam.y0(B, gen)
    w, subset = _weights(rng, len(tsl), B, fam.d, gen)
    levy = zoo.levy_for(case["method"])
    if fam.needs_U and levy == "none":
        levy = "space-time"
    per_path = [True] * len(list(fam.parameters()))

    def true_grad(bm, params):
        y0 = y0v.clone().requires_grad_(True)
        loss = 0.0
        for j, t in enumerate(tsl):
            yt = y0 if j == 0 else cf.exact_on_path(fam, bm, tsl[0], t, y0)
            loss = loss + (yt * w[j]).sum()
        return _path_grads(loss, y0, params, per_path)

    half = not (nt == "additive" or case["adjoint_method"] == "milstein")
    # order-0.5 adjoint solvers: per-level errors are noisy realisations of a sqrt(dt) law (observed final/first ratios
    # 0.10-0.26 over six levels, but up to 0.51 over five), so their ladder gets one more level
    entropy = rng.randrange(1, 10 ** 9)
    levels = list(range(4, 10) if half else range(4, 9))
    errs, _, dts, gn = _ladder(fam, case["method"], case["adjoint_method"], y0v, tsl, w, entropy, levy,
                               true_grad, levels, per_path)
    ctx = (f"sde_type={st} noise={nt} family={case['family']} method={case['method']} "
           f"adjoint_method={case['adjoint_method']} loss_on={subset} rms|grad|={gn:.3g}")
    mech = f"adjoint_gradient_not_converging:{st}:{nt}:{case['adjoint_method']}"
    trial = []
    sl = _judge(errs, dts, half, ctx, trial, mech)
    if trial:
        # The property is a limit statement and per-level errors are noisy (heavy-tailed per-path gradients; observed
        # pre-asymptotic plateaus such as .115 .125 .069 .055 .057 .058 followed by .041 .025 .013). A failed verdict is
        # therefore re-taken on a ladder extended by three finer levels on the same path: a broken adjoint stays flat,
        # a converging one resumes.
        more = [levels[-1] + 1, levels[-1] + 2, levels[-1] + 3]
        e2, _, d2, _ = _ladder(fam, case["method"], case["adjoint_method"], y0v, tsl, w, entropy, levy, true_grad, more,
                               per_path)
        errs, dts = errs + e2, dts + d2
        cnt["ladders_extended_after_failed_verdict"] = 1
        sl = _judge(errs, dts, half, ctx + " [ladder extended by 3 levels]", viol, mech)
    # adjoint_adaptive=True: the backward solves choose their own steps (tolerances 1e-3 / 1e-4, starting from
    # dt = 2^-6); with the same fixed-step forward pass the gradient must be about as accurate as the fixed-step backward
    # pass at dt = 2^-6 (observed on the pinned tree: 0.1x - 3.2x of it)
    if not viol and case["adjoint_method"] != "adjoint_reversible_heun":
        import torchsde
        params = [p for p in fam.parameters()]
        base = torchsde.BrownianInterval(tsl[0], tsl[-1], size=(B, fam.m), entropy=entropy, levy_area_approximation=levy)
        Gt, _ = true_grad(base, params)
        y0 = y0v.clone().requires_grad_(True)
        ys = torchsde.sdeint_adjoint(fam, y0, torch.tensor(tsl), bm=base, method=case["method"],
                                     adjoint_method=case["adjoint_method"], dt=2.0 ** -6, adjoint_adaptive=True,
                                     adjoint_rtol=1e-3, adjoint_atol=1e-4)
        G, _ = _path_grads((ys * w).sum(), y0, params, per_path)
        e_ad, e_fix = _rel_rms(G, Gt), errs[levels.index(6)]
        cnt["adjoint_adaptive_gradients"] = 1
        mx["adjoint_adaptive_err_over_fixed"] = e_ad / max(e_fix, 1e-3)
        # (an adaptive backward solve controls its LOCAL error estimate at rtol 1e-3; the global gradient error is then a
        # few 1e-2 at worst - observed up to 3.7e-2 = 3.2x the fixed-step error in the thorough tier, which the first
        # version of this bound (2x + 2e-3) wrongly flagged. The check is for gross errors of the adaptive backward path.)
        if not e_ad <= max(6.0 * e_fix, 0.06):
            viol.append({"mechanism": f"adjoint_adaptive_gradient_inaccurate:{st}:{nt}:{case['adjoint_method']}",
                         "detail": f"error {e_ad:.3e} with adjoint_adaptive (rtol 1e-3, atol 1e-4) vs {e_fix:.3e} with the "
                                   f"fixed-step backward pass at dt=2^-6 {ctx}"})
    cnt["gradient_ladders"] = 1
    cnt["subset_losses"] = int(subset != "all")
    cnt[f"pairs_{st}"] = 1
    mx["final_rel_err"] = errs[-1]
    mx["neg_slope_min"] = -sl
    return {"violations": viol, "counters": cnt, "max": mx, "nontrivial": gn > 1e-3,
            "sample": {"pair": [case["method"], case["adjoint_method"]], "family": case["family"], "noise": nt,
                       "loss_on": subset, "slope": round(sl, 3), "errors": [float(f"{e:.3e}") for e in errs]}}


def run_neural(case):
    """Generic neural SDE with SHARED parameters: per-path dL/dy0 decides the slope; the (summed, hence noisy)
    parameter gradient must be within the final bound and not grow."""
    import torchsde
    st, nt = case["sde_type"], case["noise_type"]
    rng = random.Random(case["rseed"])
    viol, cnt, mx = [], {}, {}
    d, B = 2, 128
    sde = zoo.NeuralSDE(d, 2, nt, st, seed=rng.randrange(10 ** 6), gscale=0.5)
    method = "euler" if st == "ito" else "midpoint"
    am = "euler" if st == "ito" else "midpoint"
    gen = torch.Generator().manual_seed(case["rseed"])
    tsl = [0.0, 0.5, 1.0]
    y0v = torch.randn(B, d, generator=gen)
    w, subset = _weights(rng, len(tsl), B, d, gen)
    ts = torch.tensor(tsl)
    per_path = [False] * len(list(sde.parameters()))
    # fine reference by backprop through sdeint with a higher-order solver where one exists
    if st == "ito":
        ref_method, ref_dt, levy = ("euler", 2.0 ** -13, "none") if nt == "general" else ("srk", 2.0 ** -11, "space-time")
    else:
        ref_method, ref_dt, levy = "heun", 2.0 ** -12, "none"

    # variant: logqp=True and a loss that also weights the returned log-ratio (the adjoint then runs on the augmented
    # SDE; well-conditioned diffusion so that the pseudo-inverse is benign)
    with_logqp = bool(case.get("logqp"))
    wq = torch.randn(len(tsl) - 1, B, generator=gen) * 0.3 if with_logqp else None
    if with_logqp:
        sde = zoo.Conditioned(sde)
        cnt["neural_logqp_ladders"] = 1

    def true_grad(bm, params):
        y0 = y0v.clone().requires_grad_(True)
        if not with_logqp:
            ys = torchsde.sdeint(sde, y0, ts, bm=bm, method=ref_method, dt=ref_dt)
            return _path_grads((ys * w).sum(), y0, params, per_path)
        ys, lq = torchsde.sdeint(sde, y0, ts, bm=bm, method=ref_method, dt=ref_dt, logqp=True)
        return _path_grads((ys * w).sum() + (lq * wq).sum(), y0, params, per_path)

    errs, errs_sh, dts, gn = _ladder(sde, method, am, y0v, tsl, w, rng.randrange(1, 10 ** 9), levy, true_grad,
                                     range(4, 9), per_path, wq=wq)
    ctx = (f"neural sde_type={st} noise={nt} method={method} adjoint_method={am} loss_on={subset} rms|grad|={gn:.3g} "
           f"logqp={with_logqp}")
    sl = _judge(errs, dts, True, ctx, viol, f"adjoint_gradient_not_converging:{st}:{nt}:{am}:neural")
    if not (errs_sh[-1] <= THRESHOLDS["final_half"] and errs_sh[-1] <= 1.5 * errs_sh[0] + 1e-3):
        viol.append({"mechanism": f"adjoint_parameter_gradient_not_converging:{st}:{nt}:{am}:neural",
                     "detail": f"shared-parameter gradient errors {[f'{e:.3e}' for e in errs_sh]} {ctx}"})
    cnt["neural_reference_ladders"] = 1
    mx["final_rel_err_neural"] = errs[-1]
    mx["final_rel_err_neural_params"] = errs_sh[-1]
    return {"violations": viol, "counters": cnt, "max": mx, "nontrivial": gn > 1e-3,
            "sample": {"noise": nt, "sde_type": st, "slope": round(sl, 3), "errors": [float(f"{e:.3e}") for e in errs],
                       "param_errors": [float(f"{e:.3e}") for e in errs_sh]}}


def run_select(case):
    """Only the tensors asked for receive gradients."""
    import torchsde
    rng = random.Random(case["rseed"])
    viol, cnt = [], {}
    st = rng.choice(["ito", "stratonovich"])
    nt = rng.choice(zoo.NOISE_TYPES)
    sde = zoo.NeuralSDE(2, 2, nt, st, seed=rng.randrange(10 ** 6), gscale=0.5)
    named = list(sde.named_parameters())
    scenarios = ["subset", "frozen", "default", "y0_no_grad", "empty", "empty_list", "renamed", "extra_state_loss"]
    rng.choice(scenarios)  # (keeps the random stream of earlier versions)
    scenario = scenarios[int(case["key"].split("-")[1]) % len(scenarios)]  # every scenario in every tier
    if scenario == "extra_state_loss":
        # the returned extra solver state is an output too: a loss that reads it (reversible Heun pair, extra=True)
        # must give the gradients backprop through sdeint gives
        sde = zoo.NeuralSDE(2, 2, nt, "stratonovich", seed=rng.randrange(10 ** 6), gscale=0.5)
        y0v = torch.randn(2, 2, generator=torch.Generator().manual_seed(case["rseed"]))
        ent = rng.randrange(1, 10 ** 9)
        gs = []
        for fn, kw2 in ((torchsde.sdeint, {}), (torchsde.sdeint_adjoint, {"adjoint_method": "adjoint_reversible_heun"})):
            for p in sde.parameters():
                p.grad = None
            y0 = y0v.clone().requires_grad_(True)
            bm = torchsde.BrownianInterval(0.0, 0.5, size=(2, sde.m), entropy=ent)
            ys, (f_, g_, z_) = fn(sde, y0, torch.tensor([0.0, 0.25, 0.5]), bm=bm, method="reversible_heun", dt=0.125,
                                  extra=True, **kw2)
            (z_.sum() + 0.5 * (f_ ** 2).sum() + (g_ * g_).sum() * 0.3).backward()
            gs.append(torch.cat([y0.grad.flatten()] + [(p.grad if p.grad is not None else torch.zeros_like(p)).flatten()
                                                       for p in sde.parameters()]))
        rel = float((gs[0] - gs[1]).norm() / gs[0].norm())
        viol = []
        if not rel <= 1e-8:
            viol.append({"mechanism": "gradient_of_loss_on_returned_extra_state_wrong",
                         "detail": f"adjoint vs backprop rel {rel:.3e} noise={nt} (loss reads the returned f, g, z)"})
        return {"violations": viol, "counters": {"selectivity_cases": 1, "extra_state_loss_cases": 1}, "max": {},
                "nontrivial": True, "sample": {"scenario": scenario, "rel": rel}}
    y0 = torch.randn(2, 2, generator=torch.Generator().manual_seed(case["rseed"]))
    kw = {}
    expect = set()
    if scenario == "subset":
        chosen = rng.sample(named, rng.randint(1, len(named) - 1))
        kw["adjoint_params"] = [p for _, p in chosen]
        expect = {n for n, _ in chosen}
        y0.requires_grad_(True)
    elif scenario == "frozen":
        frozen = rng.sample(named, 2)
        for _, p in frozen:
            p.requires_grad_(False)
        expect = {n for n, p in named if p.requires_grad}
        y0.requires_grad_(True)
    elif scenario == "default":
        expect = {n for n, _ in named}
        y0.requires_grad_(True)
    elif scenario == "y0_no_grad":
        expect = {n for n, _ in named}
    elif scenario == "renamed":
        # drift / diffusion handed over under other names: the module's parameters are still the default adjoint parameters
        expect = {n for n, _ in named}
        y0.requires_grad_(True)
        kw["names"] = {"drift": "mu", "diffusion": "sigma"}
    else:
        kw["adjoint_params"] = () if scenario == "empty" else []
        y0.requires_grad_(True)
    obj = zoo.Renamed(sde) if scenario == "renamed" else sde
    ys = torchsde.sdeint_adjoint(obj, y0, [0.0, 0.3], dt=0.1, method="euler" if st == "ito" else "midpoint", **kw)
    ys.sum().backward()
    got = {n for n, p in named if p.grad is not None}
    cnt["selectivity_cases"] = 1
    ctx = f"scenario={scenario} sde_type={st} noise={nt}"
    if got - expect:
        viol.append({"mechanism": "gradient_reaches_tensor_not_asked_for",
                     "detail": f"{sorted(got - expect)} received .grad {ctx}"})
    # every asked-for parameter the SDE actually uses must receive a gradient
    used = {n for n in expect if n not in ("unused", "hA")}
    miss = {n for n in used if n not in got}
    if miss:
        viol.append({"mechanism": "requested_tensor_got_no_gradient", "detail": f"{sorted(miss)} {ctx}"})
    if scenario != "y0_no_grad" and y0.grad is None:
        viol.append({"mechanism": "requested_tensor_got_no_gradient", "detail": f"y0 {ctx}"})
    if scenario == "y0_no_grad" and y0.grad is not None:
        viol.append({"mechanism": "gradient_reaches_tensor_not_asked_for", "detail": f"y0 {ctx}"})
    return {"violations": viol, "counters": cnt, "max": {}, "nontrivial": len(named) >= 3,
            "sample": {"scenario": scenario, "expected": sorted(expect), "received": sorted(got)}}


def run_case(case):
    return {"forward": run_forward, "grad": run_grad, "neural": run_neural, "select": run_select}[case["kind"]](case)
