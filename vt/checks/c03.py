"""C03 - a Brownian object is one path: additivity, Chen's relation for U and A, zero-length queries.

Monitor: the real objects are driven through generated hostile histories; a TreeProbe captures the
piece list of every query. Oracle: algebraic identities any single path must satisfy, evaluated on
the values the object itself returns (history + reference model; no sampling).
"""
import random

import torch

from .. import ride  # noqa: E402
from .. import bmgen, probes

ID = "C03"
LEVEL = "exploration"
RULE = ("case = (constructor configuration, wrapper class, history kind, history seed) drawn from VERIF_SEED; "
        "non-trivial = the history made the tree answer >=1 probe from >=2 stored pieces or evicted/recomputed "
        "cache entries, and >=10 Chen triples were checked; distinct = distinct case keys")
ASSUMPTIONS = [
    "relations are checked at times on the tolerance grid when tol>0 ('at resolved times')",
    "float64 tolerance 1e-10*(1+|v|); float32 objects 5e-4*(1+|v|)",
    "Chen's relation for the Levy area is demanded against exactly the stored pieces the tree used for the "
    "query (the library documents that Davie/Foster areas are not consistent across independent splits)",
]
REQUIRED_COUNTERS = ["ride_c03_additivity_triples", "ride_c03_antisymmetry", "triples", "multi_piece_queries", "evictions", "refinements", "A_chen_checked",
                     "wrapper_interval", "wrapper_path", "wrapper_tree", "wrapper_reverse", "zero_len", "reverse_vs_base_checks", "double_reversal_checks"]
THRESHOLDS = {"f64": 1e-10, "f32": 5e-4}
CASE_TIMEOUT = 900


def cases(tier, seed):
    rng = random.Random(f"C03-{seed}")
    n = 320 if tier == "quick" else 10000
    out = []
    for i in range(n):
        r = rng.random()
        wr = "interval" if r < 0.6 else ("reverse" if r < 0.8 else ("tree" if r < 0.9 else "path"))
        crng = random.Random(f"C03-{seed}-{i}")
        cfg = bmgen.random_config(crng, wrappers=(wr,))
        out.append({"key": f"c{i}", "cfg": cfg, "hseed": crng.randrange(10 ** 9), "cost": 1.0})
    out += ride.cases_for("C03", tier, seed)  # the repository's own tests under passive monitors
    return out


def _tol(cfg):
    return THRESHOLDS[cfg["dtype"]]


def _query(bm, cfg, a, b, fl, rng=None):
    qa, qb = bmgen.to_frame(cfg, a, b)
    if rng is not None:  # same times, passed as another documented type (0-d tensor / int)
        qa, qb = bmgen.as_arg(qa, rng), bmgen.as_arg(qb, rng)
    out = bm(qa, qb, **fl)
    if torch.is_tensor(out):
        return out, None, None
    W = out[0]
    U = out[1] if fl["return_U"] else None
    A = out[-1] if fl["return_A"] else None
    return W, U, A


def _err(x, y):
    return float(((x - y).abs() / (1 + y.abs())).max()) if x.numel() else 0.0


def run_case(case):
    if case.get("kind") == "ride":
        return ride.run_case(case)
    cfg = case["cfg"]
    rng = random.Random(case["hseed"])
    kind, qs, step = bmgen.history(cfg, rng)
    probe = probes.TreeProbe()
    viol, cnt, mx = [], {}, {}

    def bump(k, v=1):
        cnt[k] = cnt.get(k, 0) + v

    def check(name, got, want, ctx):
        e = _err(got, want)
        mx[f"{name}_{cfg['dtype']}"] = max(mx.get(f"{name}_{cfg['dtype']}", 0.0), e)
        if not (e <= _tol(cfg)):
            viol.append({"mechanism": f"{name}:{cfg['wrapper']}", "detail": f"rel.err {e:.3e} {ctx}"})

    with probe.installed():
        bm, base, meta = bmgen.build(cfg, step_hint=step)
        dep0 = probe.n_dep_tree
        fl = bmgen.flags_for(cfg)
        rd = bmgen.grid_round(cfg)
        t0, t1 = cfg["t0"], cfg["t1"]
        bump("wrapper_" + cfg["wrapper"])

        def triple_checks(ntr):
            for _ in range(ntr):
                s, u, t = sorted(bmgen.pick_time(cfg, rng, 0.25) for _ in range(3))
                if rng.random() < 0.15 and qs:
                    # reuse end points the history created: hits existing node boundaries
                    pts = sorted({p for q in qs[:50] for p in q})
                    s, u, t = sorted(rng.choice(pts) for _ in range(3))
                point_first = None
                if cfg["wrapper"] in ("path", "tree", "interval") and rng.random() < 0.3:
                    # point evaluations BEFORE the interval queries (a point query that disturbs stored values
                    # shows up in the relations checked below)
                    import warnings
                    with warnings.catch_warnings():
                        warnings.simplefilter("ignore")
                        point_first = (bm(s).clone(), bm(t).clone())
                # ("at resolved times": with tol > 0 an end point of the object that is not on the tolerance grid is
                # resolved to the nearest grid time; the explicit length in Chen's relation for U uses resolved times)
                tol_ = cfg.get("tol") or 0.0
                res = (lambda x: round(x, bmgen.ndigits(tol_))) if tol_ > 0 else (lambda x: x)
                W, U, A = _query(bm, cfg, s, t, fl, rng)
                pieces = probe.last_pieces if s < t else None
                if cfg["wrapper"] == "reverse" and s < t:
                    # the reversed object and the object it wraps are two views of ONE path: over the mirrored interval
                    # W is the same, A is the negative, U = (t - s) W - U_base - whenever either is asked, in any order
                    # (queries through the wrapper must not disturb what the base object holds, and vice versa)
                    outb = base(s, t, **fl)
                    Wb = outb if torch.is_tensor(outb) else outb[0]
                    bump("reverse_vs_base_checks")
                    check("reverse_W_vs_base", W, Wb, f"s={s!r} t={t!r} cfg={cfg}")
                    if A is not None:
                        check("reverse_A_vs_base", A, -outb[-1], f"s={s!r} t={t!r} cfg={cfg}")
                    if U is not None:
                        check("reverse_U_vs_base", U, (res(t) - res(s)) * Wb - outb[1], f"s={s!r} t={t!r} cfg={cfg}")
                    # a reversal of the reversed view is the original path again
                    import torchsde as _ts
                    outrr = _ts.ReverseBrownian(bm)(s, t, **fl)
                    outrr = (outrr,) if torch.is_tensor(outrr) else tuple(outrr)
                    outb_t = (outb,) if torch.is_tensor(outb) else tuple(outb)
                    bump("double_reversal_checks")
                    for x_, y_ in zip(outrr, outb_t):
                        check("double_reversal_vs_base", x_, y_, f"s={s!r} t={t!r} cfg={cfg}")
                    W_again = _query(bm, cfg, s, t, fl)[2 if A is not None else 0]
                    check("reverse_requery_after_base_query", W_again, A if A is not None else W, f"s={s!r} t={t!r} cfg={cfg}")
                W1, U1, A1 = _query(bm, cfg, s, u, fl, rng)
                W2, U2, A2 = _query(bm, cfg, u, t, fl, rng)
                if cfg["wrapper"] == "reverse":
                    # in the wrapper's frame the order of the two halves is mirrored
                    W1, W2, U1, U2, A1, A2 = W2, W1, U2, U1, A2, A1
                    len2 = res(u) - res(s)
                else:
                    len2 = res(t) - res(u)
                bump("triples")
                ctx = f"s={s!r} u={u!r} t={t!r} cfg={cfg}"
                check("W_additivity", W, W1 + W2, ctx)
                if U is not None:
                    bump("U_triples")
                    check("U_chen", U, U1 + U2 + len2 * W1, ctx)
                if A is not None:
                    check("A_antisym", A, -A.transpose(-1, -2) if A.dim() >= 2 else A, ctx)
                    if len(cfg["shape"]) < 2:
                        check("A_zero_for_1d", A, torch.zeros_like(A), ctx)
                # zero-length
                Wz, Uz, Az = _query(bm, cfg, u, u, fl)
                bump("zero_len")
                for nm, z in (("W", Wz), ("U", Uz), ("A", Az)):
                    if z is not None and (float(z.abs().max()) if z.numel() else 0.0) != 0.0:
                        viol.append({"mechanism": f"zero_length_nonzero_{nm}:{cfg['wrapper']}", "detail": ctx})
                # Chen for A against the stored pieces the tree used for [s,t]
                if A is not None and pieces is not None and len(pieces) >= 2 and len(cfg["shape"]) >= 2:
                    spans = [(p._start, p._end) for p in pieces]
                    Wc = Ac = None
                    for (pa, pb) in spans:
                        Wi, _, Ai = _query(bm, cfg, pa, pb, fl)
                        if Wc is None:
                            Wc, Ac = Wi, Ai
                        else:
                            if cfg["wrapper"] == "reverse":
                                # pieces are listed in the base frame (ascending base time): in the reversed
                                # frame piece i comes *before* the accumulated ones.
                                Ac = Ai + Ac + 0.5 * (Wi.unsqueeze(-1) * Wc.unsqueeze(-2)
                                                      - Wc.unsqueeze(-1) * Wi.unsqueeze(-2))
                            else:
                                Ac = Ac + Ai + 0.5 * (Wc.unsqueeze(-1) * Wi.unsqueeze(-2)
                                                      - Wi.unsqueeze(-1) * Wc.unsqueeze(-2))
                            Wc = Wc + Wi
                    bump("A_chen_checked")
                    bump("A_chen_pieces", len(spans))
                    check("A_chen_pieces", A, Ac, ctx + f" pieces={len(spans)}")
                    check("W_pieces", W, Wc, ctx)
                if pieces is not None and len(pieces) >= 2:
                    bump("multi_piece_queries")
                    mx["max_pieces"] = max(mx.get("max_pieces", 0), len(pieces))
                # point form
                if cfg["wrapper"] in ("path", "tree", "interval") and rng.random() < 0.3:
                    import warnings
                    with warnings.catch_warnings():
                        warnings.simplefilter("ignore")
                        ps, pt = bm(s), bm(t)
                    bump("point_form")
                    check("point_form", pt - ps, W, ctx)
                if point_first is not None:
                    bump("point_form")
                    check("point_form_first", point_first[1] - point_first[0], W, ctx)
                    # a point value is w0 + W(t0, t)
                    if cfg["wrapper"] in ("path", "tree"):
                        Wt0, _, _ = _query(bm, cfg, t0, t, fl)
                        check("point_value_is_w0_plus_increment", point_first[1], meta["w0"] + Wt0, ctx)

        # history with interleaved oracle checks
        cut = len(qs) // 2
        for j, (a, b) in enumerate(qs):
            _query(bm, cfg, a, b, fl)
            if j == cut:
                triple_checks(4)
        triple_checks(10)
        # supplied end-to-end values come back exactly
        if meta.get("W") is not None:
            W, U, _ = _query(bm, cfg, t0, t1, fl)
            bump("supplied_W_checked")
            want = meta["W"]
            if not torch.equal(W, want):
                viol.append({"mechanism": f"supplied_W_not_returned:{cfg['wrapper']}",
                             "detail": f"max diff {float((W - want).abs().max()):.3e} cfg={cfg}"})
    bump("queries", len(qs))
    bump("evictions", probe.n_evict)
    bump("refinements", probe.n_dep_tree - dep0 if cfg["wrapper"] in ("interval", "reverse") else 0)
    bump("splits", probe.n_split_exact)
    if probe.cache_overflow:
        viol.append({"mechanism": "cache_overflow", "detail": str(probe.cache_overflow[:3])})
    nontrivial = cnt.get("triples", 0) >= 10 and (cnt.get("multi_piece_queries", 0) > 0 or probe.n_evict > 0)
    return {"violations": viol, "counters": cnt, "max": mx, "nontrivial": nontrivial,
            "sample": {"history": kind, "queries": len(qs), "multi_piece": cnt.get("multi_piece_queries", 0),
                       "evictions": probe.n_evict, "splits": probe.n_split_exact}}
