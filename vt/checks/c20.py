"""C20 - batch rows are independent samples with no cross-talk.

(a) perturbing rows != i of y0 leaves row i of the solution bit-identical (every solver x noise cell);
(b) permuting rows (of y0 and of the Brownian motion, through a row-permuting proxy) permutes the outputs;
(c) a sub-batch solved alone (Brownian rows sliced by a proxy) equals the slice of the full solution;
(d) Brownian side: perturbing ONE element of every noise draw changes only that element of W/U (and only the
    matching row/column of A) - every element is driven by its own noise element.
"""
import random

import torch

from .. import probes, zoo
from torchsde._brownian import brownian_base, brownian_interval as bi

ID = "C20"
LEVEL = "exploration"
RULE = ("case = (solver x noise cell, batch size, perturbed rows) or a Brownian shape/levy/history configuration; "
        "non-trivial = batch >= 2 with >= 1 untouched row compared / >= 5 Brownian queries compared; "
        "distinct = distinct case keys")
ASSUMPTIONS = ["bit-identity for row perturbation; for permutation / sub-batch runs of SDEs containing a matmul a "
               "1e-13 relative tolerance is allowed (BLAS may block by row position / batch size); the element-wise "
               "SDE family is compared bitwise there too"]
REQUIRED_COUNTERS = ["perturb_rows_checked", "permute_runs", "subbatch_runs", "bm_element_checks", "bm_A_checks",
                     "elementwise_bitwise_runs", "bm_large_batch",
                     "via_adjoint_forward_with_adjoint_adaptive", "scale_separated_runs", "scale_separated_logqp_rows",
                     "logqp_rows_checked"]
THRESHOLDS = {"matmul_rel": 1e-13}


class RowMapBrownian(brownian_base.BaseBrownian):
    def __init__(self, base, rows):
        super().__init__()
        self.base, self.rows = base, rows

    def __call__(self, ta, tb=None, return_U=False, return_A=False):
        out = self.base(ta, tb, return_U=return_U, return_A=return_A)
        if torch.is_tensor(out):
            return out[self.rows]
        return tuple(o[self.rows] for o in out)

    def __repr__(self):
        return "RowMapBrownian()"

    dtype = property(lambda self: self.base.dtype)
    device = property(lambda self: self.base.device)
    shape = property(lambda self: (len(self.rows), *self.base.shape[1:]))
    levy_area_approximation = property(lambda self: self.base.levy_area_approximation)


class ElementwiseSDE(torch.nn.Module):
    """Row-wise SDE built from element-wise operations only (no BLAS)."""

    def __init__(self, d, noise_type, sde_type, m=2):
        super().__init__()
        self.noise_type, self.sde_type, self.d = noise_type, sde_type, d
        self.m = zoo.noise_dim(noise_type, d, m)
        self.a = torch.nn.Parameter(torch.linspace(0.3, 0.9, d))

    def f(self, t, y):
        return torch.sin(y * self.a) - 0.3 * y.roll(1, dims=1) * torch.cos(torch.as_tensor(t))

    def g(self, t, y):
        if self.noise_type == "diagonal":
            return 0.4 + 0.3 * torch.cos(y * self.a)
        if self.noise_type == "additive":
            return (0.3 + 0.1 * torch.sin(torch.as_tensor(t))) * torch.ones(y.size(0), self.d, self.m)
        base = 0.3 * torch.cos(y * self.a).unsqueeze(-1)
        return base * torch.linspace(0.5, 1.5, self.m) + 0.1 * y.roll(1, dims=1).unsqueeze(-1)


def cases(tier, seed):
    out = []
    reps = 2 if tier == "quick" else 180
    for ci, cell in enumerate(zoo.matrix()):
        for r in range(reps):
            out.append({"key": f"{zoo.cell_name(cell)}-{r}", "kind": "solver", "cell": cell,
                        "rseed": hash((seed, ci, r)) % (2 ** 31), "cost": 2})
    for ci, cell in enumerate(zoo.matrix()):
        if cell["noise_type"] == "diagonal":
            for r in range(1 if tier == "quick" else 10):
                out.append({"key": f"scales-{zoo.cell_name(cell)}-{r}", "kind": "scales", "cell": cell,
                            "rseed": hash((seed, 55, ci, r)) % (2 ** 31), "cost": 1})
    nb = 60 if tier == "quick" else 9000
    for i in range(nb):
        out.append({"key": f"bm{i}", "kind": "bm", "rseed": hash((seed, 99, i)) % (2 ** 31)})
    return out


def run_solver(case):
    import torchsde
    cell = case["cell"]
    rng = random.Random(case["rseed"])
    viol, cnt, mx = [], {}, {}
    B = rng.choice([2, 3, 8, 17, 64])
    d = rng.choice([1, 2, 3])
    elementwise = rng.random() < 0.5
    if elementwise:
        sde = ElementwiseSDE(d, cell["noise_type"], cell["sde_type"])
    else:
        sde = zoo.cell_sde(cell, d=d, m=min(2, d), seed=rng.randrange(10 ** 6), gscale=0.6)
    # a share of the runs also returns the log-ratio (logqp=True): its rows are per-sample quantities too
    logqp = (not elementwise) and rng.random() < 0.4
    if logqp:
        sde = zoo.Conditioned(sde)
        cnt["logqp_rows_checked"] = 1
    ts = torch.tensor([0.0, 0.2, 0.5])
    dt = 0.1
    entropy = rng.randrange(1, 10 ** 9)
    levy = zoo.levy_for(cell["method"])
    gen = torch.Generator().manual_seed(case["rseed"])
    y0 = torch.randn(B, d, generator=gen)

    msize = sde.m + (1 if (logqp and cell["noise_type"] == "diagonal") else 0)

    def base_bm():
        return torchsde.BrownianInterval(0.0, 0.5, size=(B, msize), entropy=entropy, levy_area_approximation=levy)

    # a share of the cases takes the values from the forward pass of sdeint_adjoint, with an ADAPTIVE backward solve
    # requested (adjoint_adaptive=True must not make the fixed-step forward solve adaptive: an adaptive controller's
    # error norm couples all rows)
    ekw = {}
    if rng.random() < 0.3:
        ekw = dict(adjoint=True, adjoint_adaptive=True, adjoint_params=tuple(p for p in sde.parameters()))
        cnt["via_adjoint_forward_with_adjoint_adaptive"] = 1
    _solve = zoo.solve

    def solve(*a, **k):
        if logqp:
            # (T, B, d) states and (T-1, B) log-ratios glued along the last axis: everything below indexes rows on dim 1
            ys_, lq_ = _solve(*a, **k, **ekw, logqp=True)
            lq_ = torch.cat([torch.zeros_like(lq_[:1]), lq_], 0).unsqueeze(-1)
            out_ = torch.cat([ys_, lq_], -1)
        else:
            out_ = _solve(*a, **k, **ekw)
        return out_.detach()

    ref = solve(cell, sde, y0, ts, dt, bm=base_bm())
    ctx = f"cell={zoo.cell_name(cell)} B={B} d={d} elementwise={elementwise}"
    # (a) perturb other rows
    keep = sorted(rng.sample(range(B), max(1, B // 2)))
    y1 = y0.clone()
    others = [i for i in range(B) if i not in keep]
    y1[others] = y1[others] + torch.randn(len(others), d, generator=gen) * 3
    out = solve(cell, sde, y1, ts, dt, bm=base_bm())
    cnt["perturb_rows_checked"] = len(keep) if others else 0
    if not torch.equal(out[:, keep], ref[:, keep]):
        viol.append({"mechanism": "row_depends_on_other_rows",
                     "detail": f"{ctx} max diff {float((out[:, keep] - ref[:, keep]).abs().max()):.3e}"})
    if others and torch.equal(out[:, others], ref[:, others]):
        viol.append({"mechanism": "perturbation_had_no_effect", "detail": ctx})
    tol = 0.0 if elementwise else THRESHOLDS["matmul_rel"]

    def close(a, b):
        if tol == 0.0:
            return torch.equal(a, b), float((a - b).abs().max())
        e = float(((a - b).abs() / (1 + b.abs())).max())
        return e <= tol, e
    # (b) permutation
    perm = list(range(B))
    rng.shuffle(perm)
    outp = solve(cell, sde, y0[perm], ts, dt, bm=RowMapBrownian(base_bm(), perm))
    ok, e = close(outp, ref[:, perm])
    cnt["permute_runs"] = 1
    mx["permute_diff"] = e
    if not ok:
        viol.append({"mechanism": "permutation_not_equivariant", "detail": f"{ctx} diff {e:.3e}"})
    # (c) sub-batch
    rows = sorted(rng.sample(range(B), rng.randint(1, B)))
    outs = solve(cell, sde, y0[rows], ts, dt, bm=RowMapBrownian(base_bm(), rows))
    ok, e = close(outs, ref[:, rows])
    cnt["subbatch_runs"] = 1
    mx["subbatch_diff"] = e
    if not ok:
        viol.append({"mechanism": "subbatch_differs_from_slice", "detail": f"{ctx} rows={rows} diff {e:.3e}"})
    if elementwise:
        cnt["elementwise_bitwise_runs"] = 1
    return {"violations": viol, "counters": cnt, "max": mx, "nontrivial": B >= 2 and bool(others),
            "sample": {"cell": zoo.cell_name(cell), "B": B, "kept_rows": keep[:6], "elementwise": elementwise}}


class LinearDiag(torch.nn.Module):
    """dy_i = a_i y_i dt + s_i y_i dW_i, prior drift b_i y_i: element-wise and homogeneous, so rows of any magnitude are
    legal and u = (f - h) / g = (a - b) / s is the same constant for every row (logqp = 1/2 |u|^2 * length)."""

    def __init__(self, d, sde_type):
        super().__init__()
        self.noise_type, self.sde_type, self.d, self.m = "diagonal", sde_type, d, d
        self.a = torch.nn.Parameter(torch.linspace(-0.4, 0.3, d))
        self.b = torch.nn.Parameter(torch.linspace(0.2, -0.1, d))
        self.s = torch.nn.Parameter(torch.linspace(0.3, 0.6, d))

    def f(self, t, y):
        return self.a * y

    def g(self, t, y):
        return self.s * y

    def h(self, t, y):
        return self.b * y


def run_scales(case):
    """Rows whose magnitudes differ by many orders (1e-4 ... 1e12): anything normalised, clamped or guarded relative to a
    batch-wide statistic makes a row depend on the others. With and without logqp; the log-ratio rows are checked too."""
    import torchsde
    cell = case["cell"]
    rng = random.Random(case["rseed"])
    viol, cnt = [], {}
    d, B = rng.choice([2, 3]), 5
    sde = LinearDiag(d, cell["sde_type"])
    ts = torch.tensor([0.0, 0.25, 0.5])
    dt = 0.125
    entropy = rng.randrange(1, 10 ** 9)
    levy = zoo.levy_for(cell["method"])
    gen = torch.Generator().manual_seed(case["rseed"])
    base = torch.rand(B, d, generator=gen) + 0.5
    scales = torch.tensor([1e-4, 1.0, 1e4, 1e-2, 1e2]).reshape(B, 1)
    keep = [0, 1, 2]
    others = [3, 4]
    ctx = f"cell={zoo.cell_name(cell)} d={d}"
    for logqp in (False, True):
        msize = sde.m + (1 if logqp else 0)

        def run(y0):
            bm = torchsde.BrownianInterval(0.0, 0.5, size=(B, msize), entropy=entropy, levy_area_approximation=levy)
            with torch.no_grad():
                out = zoo.solve(cell, sde, y0, ts, dt, bm=bm, logqp=logqp)
            return out if logqp else (out,)
        y0 = base * scales
        y1 = y0.clone()
        y1[others] = y1[others] * torch.tensor([1e8, 1e-8]).reshape(2, 1)
        r0, r1 = run(y0), run(y1)
        cnt["scale_separated_runs"] = cnt.get("scale_separated_runs", 0) + 1
        for nm, a, b in zip(("ys", "logqp"), r0, r1):
            if not torch.equal(a[:, keep], b[:, keep]):
                viol.append({"mechanism": f"row_depends_on_other_rows_magnitude:{nm}",
                             "detail": f"{ctx} logqp={logqp}: rows {keep} changed by up to "
                                       f"{float((a[:, keep] - b[:, keep]).abs().max()):.3e} when rows {others} were rescaled"})
        if logqp:
            want = 0.5 * float((((sde.a - sde.b) / sde.s) ** 2).sum()) * (ts[1:] - ts[:-1]).unsqueeze(1).expand(-1, B)
            e = float(((r0[1] - want).abs() / want).max())
            cnt["scale_separated_logqp_rows"] = B
            if not e <= 1e-9:
                viol.append({"mechanism": "logqp_row_wrong_for_scale_separated_batch",
                             "detail": f"{ctx}: rel err {e:.3e} (rows of magnitude 1e-4 ... 1e4 in one batch)"})
    return {"violations": viol, "counters": cnt, "max": {}, "nontrivial": True,
            "sample": {"cell": zoo.cell_name(cell), "d": d, "scales": scales.flatten().tolist()}}


def run_bm(case):
    import torchsde
    from .. import bmgen
    rng = random.Random(case["rseed"])
    viol, cnt = [], {}
    # (large batches too: shortcuts keyed on the batch size, e.g. shared noise rows for "big" samples, only show there)
    shape = rng.choice([[3], [2, 3], [4, 2], [2, 2, 2], [5, 1], [2, 3, 3], [64, 3], [257, 1], [100, 2]])
    cnt["bm_large_batch"] = int(shape[0] >= 64)
    levy = rng.choice(bmgen.LEVY)
    cfg = {"wrapper": "interval", "shape": shape, "levy": levy, "dtype": "f64", "entropy": rng.randrange(1, 10 ** 9),
           "t0": 0.0, "t1": 1.0, "halfway": rng.random() < 0.2, "cache": rng.choice([0, 1, 5, 45, None]),
           "supply": "none", "dt_mode": "none"}
    cfg["tol"] = 1e-3 if cfg["halfway"] else 0.0
    kind, qs, step = bmgen.history(cfg, random.Random(case["rseed"]), kind=rng.choice(["random", "sweep", "adaptive"]),
                                   n=rng.choice([8, 30]))
    idx = tuple(rng.randrange(s) for s in shape)
    fl = bmgen.flags_for(cfg)
    orig = bi._randn

    odd_sizes = []

    def perturbed(size, dtype, device, seed):
        out = orig(size, dtype, device, seed)
        if tuple(size) == tuple(shape):
            out[idx] += 0.75
        elif tuple(size) != tuple(shape) + tuple(shape[-1:]):
            odd_sizes.append(tuple(size))  # neither the sample shape nor the Levy-area noise shape (*shape, m)
        return out

    def run(fn):
        with probes.patched(bi, "_randn", fn):
            bm, _, _ = bmgen.build(cfg, step_hint=step)
            return [bm(a, b, **fl) for (a, b) in qs if a < b]

    A0, A1 = run(orig), run(perturbed)
    # (observation only: an implementation may draw its normals at any shape as long as every element gets its own)
    cnt["bm_draws_at_other_than_sample_shape"] = len(odd_sizes)
    # independent continuous noise never produces two bit-identical elements in one sample: duplicated values mean
    # that elements (rows) share a noise element
    for o0 in A0:
        W = o0 if torch.is_tensor(o0) else o0[0]
        flat = W.flatten()
        cnt["bm_distinct_element_checks"] = cnt.get("bm_distinct_element_checks", 0) + 1
        if flat.numel() > 1 and torch.unique(flat).numel() < flat.numel():
            viol.append({"mechanism": "sample_elements_share_noise",
                         "detail": f"shape={shape} levy={levy}: a W sample has only {torch.unique(flat).numel()} distinct "
                                   f"values among {flat.numel()} elements; cfg={cfg}"})
            return {"violations": viol, "counters": cnt}
    moved = False
    for o0, o1 in zip(A0, A1):
        o0 = (o0,) if torch.is_tensor(o0) else o0
        o1 = (o1,) if torch.is_tensor(o1) else o1
        names = ["W"] + (["U"] if fl["return_U"] else []) + (["A"] if fl["return_A"] else [])
        for nm, x0, x1 in zip(names, o0, o1):
            diff = (x0 != x1)
            if nm == "W" and bool(diff[idx]):
                moved = True
            if nm in ("W", "U"):
                mask = torch.zeros_like(diff)
                mask[idx] = True
                cnt["bm_element_checks"] = cnt.get("bm_element_checks", 0) + 1
            else:
                if len(shape) < 2:
                    continue
                mask = torch.zeros_like(diff)
                mask[idx[:-1] + (idx[-1],)] = True  # row j0
                mask[idx[:-1] + (slice(None), idx[-1])] = True  # column j0
                cnt["bm_A_checks"] = cnt.get("bm_A_checks", 0) + 1
            if bool((diff & ~mask).any()):
                viol.append({"mechanism": f"noise_element_leaks_into_other_elements:{nm}",
                             "detail": f"shape={shape} levy={levy} perturbed element {idx}: "
                                       f"{int((diff & ~mask).sum())} other elements changed; cfg={cfg}"})
                return {"violations": viol, "counters": cnt}
    if A0 and not moved:
        viol.append({"mechanism": "element_not_driven_by_its_own_noise_element",
                     "detail": f"shape={shape} levy={levy}: perturbing noise element {idx} of every draw changed W{idx} in "
                               f"none of {len(A0)} queries; cfg={cfg}"})
    return {"violations": viol, "counters": cnt, "max": {}, "nontrivial": len(A0) >= 5,
            "sample": {"shape": shape, "levy": levy, "queries": len(A0), "perturbed_element": list(idx)}}


def run_case(case):
    return {"solver": run_solver, "scales": run_scales, "bm": run_bm}[case["kind"]](case)
