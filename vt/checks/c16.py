"""C16 - equivalent SDE interfaces give identical solutions; derived operators are exact.

(a) seven interface variants x every solver x noise cell: the run is torch.equal to the (f, g) run or raises an
    explicit error naming the missing method - and which of the two happens is fixed by what the variant provides
    (a solver that only needs products must succeed with product-only variants).
(b) operators ForwardSDE derives (prod / g_prod, g dg v for diagonal / scalar / additive, both Levy-Jacobian
    implementations) against dense-Jacobian definitions built with torch.autograd.functional.jacobian.
"""
import random
import re

import torch
from torch import nn

from .. import zoo
from torchsde._core import base_sde

ID = "C16"
LEVEL = "exploration"
EXHAUSTIVE = True
RULE = ("(a) exhaustive: 39 solver x noise cells x 10 interface variants; (b) generated smooth SDEs x random (t, y, v, A); "
        "non-trivial = the variant run was compared bitwise with the reference run or produced an explicit error; "
        "derived-operator cases with d >= 2; distinct = distinct case keys")
ASSUMPTIONS = ["variant g_prod implementations perform the same floating-point operations as the library default "
               "(g*v, resp. bmm), so bit-identity is the expected outcome",
               "need(solver) tables are written from the solver descriptions: euler/heun/midpoint use only the "
               "drift-and-diffusion-product; euler_heun additionally the diffusion product; milstein/srk/log_ode(general)/"
               "reversible_heun need the diffusion itself"]
REQUIRED_COUNTERS = ["variant_equal", "variant_explicit_error", "op_prod", "op_gdg_diagonal", "op_gdg_scalar",
                     "op_gdg_additive", "op_levy_v1", "op_levy_v2", "renamed_runs", "renamed_with_decoy_runs",
                     "op_gdg_general_columnwise", "call_sequences_on_one_object"]
VARIANTS = ["f_g", "f_and_g", "f_gprod", "f_and_g_prod", "f_and_g+g_prod", "all", "renamed", "renamed+decoy",
            "renamed_pair+decoy", "renamed_pairprod+decoy"]
# renaming through `names`: the method named by the user is the one integrated, also when the object happens to have
# another method under the standard name of that role (the usual latent-SDE layout has both f and h): the "decoy"
# variants carry a DIFFERENT function under the standard name
NAMES = {"renamed": {"drift": "mu", "diffusion": "sigma"},
         "renamed+decoy": {"drift": "mu", "diffusion": "sigma"},
         "renamed_pair+decoy": {"drift_and_diffusion": "mu_sigma"},
         "renamed_pairprod+decoy": {"drift_and_diffusion_prod": "mu_sigma_prod"}}
THRESHOLDS = {"operator_rel": 1e-11}


class Variant(nn.Module):
    def __init__(self, base, variant):
        super().__init__()
        self.base = base
        self.noise_type, self.sde_type = base.noise_type, base.sde_type
        diag = base.noise_type == "diagonal"

        def prod(g, v):
            return g * v if diag else torch.bmm(g, v.unsqueeze(-1)).squeeze(dim=-1)

        f, g = base.f, base.g
        f_and_g = lambda t, y: (f(t, y), g(t, y))  # noqa: E731
        g_prod = lambda t, y, v: prod(g(t, y), v)  # noqa: E731
        f_and_g_prod = lambda t, y, v: (f(t, y), prod(g(t, y), v))  # noqa: E731
        have = {"f_g": dict(f=f, g=g), "f_and_g": dict(f_and_g=f_and_g), "f_gprod": dict(f=f, g_prod=g_prod),
                "f_and_g_prod": dict(f_and_g_prod=f_and_g_prod),
                "f_and_g+g_prod": dict(f_and_g=f_and_g, g_prod=g_prod),
                "all": dict(f=f, g=g, f_and_g=f_and_g, g_prod=g_prod, f_and_g_prod=f_and_g_prod),
                "renamed": dict(mu=f, sigma=g),
                "renamed+decoy": dict(mu=f, sigma=g, f=lambda t, y: f(t, y) + 1.0, g=lambda t, y: 2.0 * g(t, y)),
                "renamed_pair+decoy": dict(mu_sigma=f_and_g,
                                           f_and_g=lambda t, y: (f(t, y) + 1.0, 2.0 * g(t, y))),
                "renamed_pairprod+decoy": dict(mu_sigma_prod=f_and_g_prod,
                                               f_and_g_prod=lambda t, y, v: (f(t, y) + 1.0, 2.0 * prod(g(t, y), v)))
                }[variant]
        for k, v in have.items():
            setattr(self, k, v)


def provides(variant):
    """Primitive operations obtainable from what the variant supplies (documented defaults only)."""
    p = {"f_g": {"f", "g"}, "f_and_g": {"f_and_g"}, "f_gprod": {"f", "g_prod"}, "f_and_g_prod": {"f_and_g_prod"},
         "f_and_g+g_prod": {"f_and_g", "g_prod"}, "all": {"f", "g", "f_and_g", "g_prod", "f_and_g_prod"},
         "renamed": {"f", "g"}, "renamed+decoy": {"f", "g"}, "renamed_pair+decoy": {"f_and_g"},
         "renamed_pairprod+decoy": {"f_and_g_prod"}}[variant]
    p = set(p)
    if {"f", "g"} <= p:
        p |= {"f_and_g"}
    if "g" in p:
        p |= {"g_prod"}
    if "f_and_g_prod" not in p:
        if ("f" in p and "g_prod" in p) or "f_and_g" in p:
            p |= {"f_and_g_prod"}
    return p


def needs(cell):
    m, nt, gf = cell["method"], cell["noise_type"], bool(cell.get("options"))
    if m in ("euler", "heun", "midpoint"):
        return {"f_and_g_prod"}
    if m == "euler_heun":
        return {"f_and_g_prod", "g_prod"}
    if m == "milstein":
        if nt == "additive":
            return {"f", "g_prod"}
        return {"f_and_g", "g"} if gf else {"f", "g"}
    if m == "srk":
        return {"f", "g_prod"} if nt == "additive" else {"f", "g", "g_prod"}
    if m == "reversible_heun":
        return {"f_and_g"}
    if m == "log_ode":
        return {"f_and_g_prod", "g"} if nt == "general" else {"f_and_g_prod"}
    raise ValueError(m)


def cases(tier, seed):
    out = []
    for ci, cell in enumerate(zoo.matrix()):
        out.append({"key": f"iface-{zoo.cell_name(cell)}", "kind": "iface", "cell": cell,
                    "rseed": hash((seed, ci)) % (2 ** 31), "cost": 2})
    nop = 60 if tier == "quick" else 12000
    for i in range(nop):
        out.append({"key": f"op{i}", "kind": "op", "rseed": hash((seed, 7, i)) % (2 ** 31),
                    "noise_type": zoo.NOISE_TYPES[i % 4]})
    return out


def run_iface(case):
    import torchsde
    cell = case["cell"]
    rng = random.Random(case["rseed"])
    viol, cnt = [], {}
    d, m, B = 3, 2, 2
    # (additive diffusion that differs between batch rows, element-wise diffusion with components of either sign)
    base = zoo.cell_sde(cell, d=d, m=m, seed=rng.randrange(10 ** 6), gscale=0.6, batch_varying=True, signed=True)
    y0 = torch.randn(B, d, generator=torch.Generator().manual_seed(case["rseed"]))
    ts = [0.0, 0.3, 0.5]
    dt = 0.1
    entropy = rng.randrange(1, 10 ** 9)
    ref = None
    for variant in VARIANTS:
        sde = Variant(base, variant)
        bm = torchsde.BrownianInterval(t0=0.0, t1=0.5, size=(B, base.m), entropy=entropy,
                                       levy_area_approximation=zoo.levy_for(cell["method"]))
        kw = {"names": dict(NAMES[variant])} if variant in NAMES else {}
        expect_ok = needs(cell) <= provides(variant)
        try:
            ys = zoo.solve(cell, sde, y0, ts, dt, bm=bm, **kw)
            outcome = "ran"
        except (RuntimeError, ValueError) as e:
            msg = str(e)
            explicit = bool(re.search(r"`(f|g|f_and_g|g_prod)`.*(not been provided|required)|must define", msg))
            outcome = "explicit_error" if explicit else f"other_error:{type(e).__name__}:{msg[:120]}"
        if variant == "f_g":
            if outcome != "ran":
                viol.append({"mechanism": "reference_interface_fails", "detail": f"{zoo.cell_name(cell)} {outcome}"})
                break
            ref = ys
            continue
        if "decoy" in variant:
            cnt["renamed_with_decoy_runs"] = cnt.get("renamed_with_decoy_runs", 0) + 1
        if variant == "renamed":
            cnt["renamed_runs"] = cnt.get("renamed_runs", 0) + 1
        ctx = f"cell={zoo.cell_name(cell)} variant={variant}"
        if outcome == "ran":
            if not expect_ok:
                viol.append({"mechanism": "ran_without_required_method", "detail": ctx})
            if torch.equal(ys, ref):
                cnt["variant_equal"] = cnt.get("variant_equal", 0) + 1
            else:
                viol.append({"mechanism": "interface_variant_differs",
                             "detail": f"{ctx} max diff {float((ys - ref).abs().max()):.3e}"})
        elif outcome == "explicit_error":
            cnt["variant_explicit_error"] = cnt.get("variant_explicit_error", 0) + 1
            if expect_ok:
                viol.append({"mechanism": "supported_interface_rejected", "detail": ctx})
        else:
            viol.append({"mechanism": "non_explicit_error", "detail": f"{ctx} {outcome}"})
    # a SEQUENCE of calls on ONE object: the "renamed+decoy" object (f, g = decoys; mu, sigma = the real functions) is
    # first solved with names=..., then WITHOUT names, then with names again. A per-call renaming must leave no trace on
    # the user's object: the middle call integrates the decoys, the outer two the real functions.
    if ref is not None and not viol:
        obj = Variant(base, "renamed+decoy")

        def run(**kw):
            bm = torchsde.BrownianInterval(t0=0.0, t1=0.5, size=(B, base.m), entropy=entropy,
                                           levy_area_approximation=zoo.levy_for(cell["method"]))
            return zoo.solve(cell, obj, y0, ts, dt, bm=bm, **kw)
        decoy_ref = Variant(base, "renamed+decoy")
        want_plain = zoo.solve(cell, decoy_ref, y0, ts, dt, bm=torchsde.BrownianInterval(
            t0=0.0, t1=0.5, size=(B, base.m), entropy=entropy, levy_area_approximation=zoo.levy_for(cell["method"])))
        a = run(names=dict(NAMES["renamed+decoy"]))
        b = run()
        c = run(names={"drift": "mu"})  # only the drift renamed: diffusion is the decoy g
        a2 = run(names=dict(NAMES["renamed+decoy"]))
        cnt["call_sequences_on_one_object"] = 1
        if not (torch.equal(a, ref) and torch.equal(a2, ref) and torch.equal(b, want_plain)):
            viol.append({"mechanism": "renaming_leaves_a_trace_on_the_user_object",
                         "detail": f"cell={zoo.cell_name(cell)}: named call equal to reference: {torch.equal(a, ref)} / "
                                   f"{torch.equal(a2, ref)}; plain call in between equal to a fresh object's: "
                                   f"{torch.equal(b, want_plain)}"})
        if torch.equal(c, ref) or torch.equal(c, want_plain):
            viol.append({"mechanism": "partial_renaming_not_applied",
                         "detail": f"cell={zoo.cell_name(cell)}: names={{'drift': 'mu'}} must integrate (mu, decoy g)"})
    return {"violations": viol, "counters": cnt, "max": {}, "nontrivial": True,
            "sample": {"cell": zoo.cell_name(cell), **cnt}}


def _jac_g(sde, t, y):
    """dense dg[b, i, l, j] = d g_{b,i,l} / d y_{b,j} (per batch row), g as (B, d, m) (diag_embed for diagonal)."""
    B = y.size(0)
    rows = []
    for b in range(B):
        def gb(yy):
            g = sde.g(t, yy.unsqueeze(0))[0]
            return torch.diag_embed(g) if sde.noise_type == "diagonal" else g
        rows.append(torch.autograd.functional.jacobian(gb, y[b]))
    return torch.stack(rows)


def run_op(case):
    rng = random.Random(case["rseed"])
    nt = case["noise_type"]
    viol, cnt, mx = [], {}, {}
    d, m, B = rng.choice([2, 3, 4]), rng.choice([2, 3]), rng.choice([1, 3])
    sde = zoo.NeuralSDE(d, m, nt, rng.choice(["ito", "stratonovich"]), seed=rng.randrange(10 ** 6),
                        batch_varying=rng.random() < 0.5, signed=rng.random() < 0.5)
    m = sde.m
    gen = torch.Generator().manual_seed(case["rseed"])
    y = torch.randn(B, d, generator=gen)
    t = torch.tensor(rng.uniform(-1, 2))
    v1 = torch.randn(B, m, generator=gen)
    v2 = torch.randn(B, m, generator=gen)
    fs = base_sde.ForwardSDE(sde)
    g = sde.g(t, y)
    G = torch.diag_embed(g) if nt == "diagonal" else g  # (B, d, m)
    dG = _jac_g(sde, t, y)  # (B, d, m, d)

    def cmp(name, got, want):
        e = float((got - want).abs().max() / (1 + want.abs().max()))
        mx[name] = max(mx.get(name, 0), e)
        cnt[name] = cnt.get(name, 0) + 1
        if not e <= THRESHOLDS["operator_rel"]:
            viol.append({"mechanism": f"derived_operator_wrong:{name}",
                         "detail": f"rel err {e:.3e} noise={nt} d={d} m={m} B={B}"})

    want_prod = torch.einsum("bil,bl->bi", G, v1)
    cmp("op_prod", fs.prod(g, v1), want_prod)
    cmp("op_prod", fs.g_prod(t, y, v1), want_prod)
    f_, gp_ = fs.f_and_g_prod(t, y, v1)
    cmp("op_prod", gp_, want_prod)
    # Milstein term: sum_{j,l} (d g_{i,l} / d y_j) g_{j,l} v2_l
    if nt != "general":
        want_gdg = torch.einsum("bilj,bjl,bl->bi", dG, G, v2)
        for ge in (True, False):
            with torch.set_grad_enabled(ge):
                gp, gdg = fs.g_prod_and_gdg_prod(t, y, v1, v2)
            gdg = torch.zeros_like(want_gdg) + gdg
            cmp(f"op_gdg_{nt}", gdg, want_gdg)
            cmp("op_prod", gp, want_prod)
            if not ge and (torch.is_tensor(gdg) and gdg.requires_grad):
                viol.append({"mechanism": "graph_kept_under_no_grad:gdg", "detail": nt})
    else:
        # general noise: no solver uses the operator with more than one channel, but it is part of ForwardSDE; it is
        # the column-wise term  sum_l v2_l (d g_l / d y) g_l  (what the scalar case is the m = 1 instance of)
        want_gdg = torch.einsum("bilj,bjl,bl->bi", dG, G, v2)
        for ge in (True, False):
            with torch.set_grad_enabled(ge):
                gp, gdg = fs.g_prod_and_gdg_prod(t, y, v1, v2)
            cmp("op_gdg_general_columnwise", torch.zeros_like(want_gdg) + gdg, want_gdg)
            cmp("op_prod", gp, want_prod)
    # Levy-area Jacobian term: sum_{j,k,l} d g_{i,l}/d y_j g_{j,k} A_{k,l}
    A = torch.randn(B, m, m, generator=gen)
    A = A - A.transpose(1, 2)
    want_levy = torch.einsum("bilj,bjk,bkl->bi", dG, G, A)
    if nt == "general":
        for name, fast in (("op_levy_v1", False), ("op_levy_v2", True)):
            fsx = base_sde.ForwardSDE(sde, fast_dg_ga_jvp_column_sum=fast)
            cmp(name, fsx.dg_ga_jvp_column_sum(t, y, A), want_levy)
    else:
        got = fs.dg_ga_jvp_column_sum(t, y, A)
        if not (isinstance(got, float) and got == 0.0) and not (torch.is_tensor(got) and float(got.abs().max()) == 0):
            viol.append({"mechanism": "levy_term_nonzero_for_special_noise", "detail": nt})
    return {"violations": viol, "counters": cnt, "max": mx, "nontrivial": d >= 2,
            "sample": {"noise": nt, "d": d, "m": m, "B": B, **{k: v for k, v in mx.items()}}}


def run_case(case):
    return run_iface(case) if case["kind"] == "iface" else run_op(case)
