"""C18 - logqp returns the path-wise KL integrand and does not disturb the solution.

Monitors on the real sdeint(..., logqp=True): shape / sign / additivity over output intervals; state trajectory
identical to the run without logqp under the same noise; exact case f - h = g c  =>  1/2 |c|^2 * (interval length);
generic case equals a hand-augmented SDE (running integral of 1/2 |g^+ (f-h)|^2, pseudo-inverse by lstsq) integrated by
the same solver under the same noise.
"""
import random

import torch
from torch import nn

from .. import probes, zoo

ID = "C18"
LEVEL = "exploration"
RULE = ("case = (solver x noise cell, exact|generic family, sizes, ts/dt); non-trivial = >= 2 output intervals, >= 3 "
        "steps and a strictly positive logqp value; distinct = distinct case keys")
ASSUMPTIONS = ["full-column-rank diffusion (state size >= noise size) in the exact and generic families",
               "exact case to 1e-11 relative; generic case vs hand-augmented SDE to 1e-9 relative (pinverse vs lstsq)",
               "state trajectory must be torch.equal to the run without logqp (same Brownian values; for diagonal noise "
               "through a column-slicing proxy)"]
REQUIRED_COUNTERS = ["exact_runs", "generic_runs", "state_equal_checks", "additivity_checks", "diagonal_runs",
                     "general_runs", "offgrid_output_runs", "two_output_time_runs", "renamed_prior_drift_runs",
                     "two_instances_of_one_drift_class", "continued_reversible_heun_runs"]
THRESHOLDS = {"exact_rel": 1e-11, "generic_rel": 1e-9, "additive_rel": 1e-11}


class ExactFamily(nn.Module):
    """f - h = g c with a constant vector c (g full column rank)."""

    def __init__(self, base, c):
        super().__init__()
        self.base, self.c = base, c
        self.noise_type, self.sde_type, self.m = base.noise_type, base.sde_type, base.m

    def f(self, t, y):
        return self.base.f(t, y)

    def g(self, t, y):
        return self.base.g(t, y)

    def h(self, t, y):
        g = self.base.g(t, y)
        gc = g * self.c if self.noise_type == "diagonal" else torch.einsum("bij,j->bi", g, self.c)
        return self.base.f(t, y) - gc


class HandAug(nn.Module):
    """(y, l): dl = 1/2 |g^+ (f - h)|^2 dt, written independently of the library (lstsq pseudo-inverse)."""

    def __init__(self, base):
        super().__init__()
        self.base = base
        self.noise_type, self.sde_type = base.noise_type, base.sde_type
        self.m = base.m + (1 if base.noise_type == "diagonal" else 0)

    def f(self, t, ya):
        y = ya[:, :-1]
        f, g, h = self.base.f(t, y), self.base.g(t, y), self.base.h(t, y)
        if self.noise_type == "diagonal":
            u = (f - h) / g
        else:
            u = torch.linalg.lstsq(g, (f - h).unsqueeze(-1)).solution.squeeze(-1)
        return torch.cat([f, 0.5 * (u ** 2).sum(1, keepdim=True)], dim=1)

    def g(self, t, ya):
        y = ya[:, :-1]
        g = self.base.g(t, y)
        if self.noise_type == "diagonal":
            return torch.cat([g, torch.zeros(y.size(0), 1)], dim=1)
        return torch.cat([g, torch.zeros(y.size(0), 1, g.size(-1))], dim=1)


class Drift(nn.Module):
    """drift(t, y) = -k y + g(t, y) c : posterior and prior are two INSTANCES of this one class (c = 0 for the prior)."""

    def __init__(self, gfun, k, c, diag):
        super().__init__()
        self.gfun, self.k, self.c, self.diag = gfun, k, c, diag

    def drift(self, t, y):
        g = self.gfun(t, y)
        gc = g * self.c if self.diag else torch.einsum("bij,j->bi", g, self.c)
        return -self.k * y + gc


class TwoInstances(nn.Module):
    """f and h are bound methods of the same function on two different objects (f - h = g c exactly)."""

    def __init__(self, base, c):
        super().__init__()
        self.noise_type, self.sde_type, self.m = base.noise_type, base.sde_type, base.m
        self.g = base.g
        self.post = Drift(base.g, 0.7, c, base.noise_type == "diagonal")
        self.prior = Drift(base.g, 0.7, torch.zeros_like(c), base.noise_type == "diagonal")
        self.f, self.h = self.post.drift, self.prior.drift


def cases(tier, seed):
    reps = 1 if tier == "quick" else 120
    out = []
    for ci, cell in enumerate(zoo.matrix()):
        for fam in ("exact", "generic"):
            for r in range(reps):
                out.append({"key": f"{zoo.cell_name(cell)}-{fam}{r}", "cell": cell, "family": fam,
                            "rseed": hash((seed, ci, fam == "exact", r)) % (2 ** 31), "cost": 2})
    return out


def run_case(case):
    import torchsde
    cell = case["cell"]
    nt = cell["noise_type"]
    rng = random.Random(case["rseed"])
    viol, cnt, mx = [], {}, {}
    m = rng.choice([1, 2])
    d = rng.choice([1, 2, 3])  # (state size 1 with a batch: shapes that collapse under a bare squeeze)
    m = min(m, d)  # full column rank (see ASSUMPTIONS): no more noise channels than state components
    B = rng.choice([1, 3])
    # (element-wise diffusion with components of either sign; additive diffusion that differs between batch rows)
    base = zoo.cell_sde(cell, d=d, m=m, seed=rng.randrange(10 ** 6), gscale=0.7, signed=True, batch_varying=True)
    if nt in ("general", "scalar"):
        # keep the diffusion well-conditioned (full column rank): add a fixed tall identity-like block
        g_orig = base.g
        eye = torch.eye(d, base.m)
        base.g = lambda t, y: g_orig(t, y) + 1.5 * eye  # noqa: E731
    gen = torch.Generator().manual_seed(case["rseed"])
    if case["family"] == "exact":
        c = torch.randn(base.m, generator=gen)
        sde = ExactFamily(base, c)
        if rng.random() < 0.3:
            sde = TwoInstances(base, c)
            cnt["two_instances_of_one_drift_class"] = 1
    else:
        sde = base
    t0 = rng.choice([0.0, 0.4])
    dt = rng.choice([0.1, 0.05])
    k = rng.choice([1, 2, 3, 5])  # k = 1: exactly two output times
    # output times on the step grid (needed for additivity under refinement) ...
    n = 10
    idx = sorted(rng.sample(range(1, n), k - 1))
    tsl = [t0] + [t0 + i * dt for i in idx] + [t0 + n * dt]
    # ... or, in the exact family (whose running integral is linear in t, so linear interpolation of the log-ratio channel
    # is exact), also strictly inside steps
    offgrid = case["family"] == "exact" and k >= 2 and rng.random() < 0.4
    if offgrid:
        tsl = [t0] + sorted(t0 + (i + rng.choice([0.3, 0.5, 0.85])) * dt for i in idx) + [t0 + n * dt]
    cnt["offgrid_output_runs"] = int(offgrid)
    cnt["two_output_time_runs"] = int(k == 1)
    ts = torch.tensor(tsl)
    y0 = torch.randn(B, d, generator=gen)
    entropy = rng.randrange(1, 10 ** 9)
    levy = zoo.levy_for(cell["method"])
    msize = base.m + (1 if nt == "diagonal" else 0)

    def bm_full():
        return torchsde.BrownianInterval(t0=tsl[0], t1=tsl[-1], size=(B, msize), entropy=entropy,
                                         levy_area_approximation=levy)

    ctx = f"cell={zoo.cell_name(cell)} family={case['family']} B={B} d={d} m={base.m} ts={tsl} dt={dt}"
    ys, lq = zoo.solve(cell, sde, y0, ts, dt, bm=bm_full(), logqp=True)
    nsteps = n
    # the prior drift handed over under another name (names={'prior_drift': ...}) while the object ALSO has a method
    # called h (a different function): the named one is the prior drift
    if rng.random() < 0.35:
        ren = zoo.Plain(sde.f, sde.g, sde.noise_type, sde.sde_type, h=lambda t, y: sde.h(t, y) + 1.0)
        ren.prior = sde.h
        ys_r, lq_r = zoo.solve(cell, ren, y0, ts, dt, bm=bm_full(), logqp=True, names={"prior_drift": "prior"})
        cnt["renamed_prior_drift_runs"] = 1
        if not (torch.equal(ys_r, ys) and torch.equal(lq_r, lq)):
            viol.append({"mechanism": "renamed_prior_drift_not_used",
                         "detail": f"max logqp diff {float((lq_r - lq).abs().max()):.3e} {ctx}"})
    if tuple(lq.shape) != (len(tsl) - 1, B) or tuple(ys.shape) != (len(tsl), B, d) or lq.dtype != y0.dtype:
        viol.append({"mechanism": "logqp_shape", "detail": f"{tuple(lq.shape)} {tuple(ys.shape)} {ctx}"})
        return {"violations": viol}
    if float(lq.min()) < -1e-12:
        viol.append({"mechanism": "logqp_negative", "detail": f"min {float(lq.min()):.3e} {ctx}"})
    # reversible Heun: a solve continued from the returned extra solver state (extra=True, logqp=True on both calls)
    # returns the same log-ratio pieces and the same states as the one-shot solve
    if cell["method"] == "reversible_heun" and len(tsl) >= 3:
        cut = rng.randrange(1, len(tsl) - 1)
        bmc = bm_full()
        ya, la, ex = zoo.solve(cell, sde, y0, ts[:cut + 1], dt, bm=bmc, logqp=True, extra=True)
        yb, lb, _ = zoo.solve(cell, sde, ya[-1], ts[cut:], dt, bm=bmc, logqp=True, extra=True, extra_solver_state=ex)
        cnt["continued_reversible_heun_runs"] = 1
        lc = torch.cat([la, lb], 0)
        e = float(((lc - lq).abs() / (lq.abs() + 1e-12)).max())
        es = float(((torch.cat([ya, yb[1:]], 0) - ys).abs() / (1 + ys.abs())).max())
        mx["continued_logqp_rel"] = e
        # the cut is an output time given as a decimal float: it may differ by an ulp from the accumulated grid time of
        # the one-shot run (Brownian increments then differ by ~sqrt(ulp)) or lie inside a step (off-grid outputs), so
        # states / path-dependent log-ratios are compared to 1e-6 resp. 2e-2 (bit-exact restarts are C13's subject);
        # in the exact family the log-ratio is path-independent and must agree to rounding
        on_grid = not offgrid
        tol_l = 1e-10 if case["family"] == "exact" else (1e-6 if on_grid else float("inf"))
        tol_s = 1e-6 if on_grid else float("inf")  # (a cut inside a step moves the whole step grid of the second call)
        if not (e <= tol_l and es <= tol_s):
            viol.append({"mechanism": "logqp_of_continued_solve_differs",
                         "detail": f"cut at output {cut}: log-ratio rel diff {e:.3e}, state diff {es:.3e} {ctx}"})
    # state undisturbed
    bm_plain = bm_full() if nt != "diagonal" else probes.ColumnSliceBrownian(bm_full(), base.m)
    ys_plain = zoo.solve(cell, sde, y0, ts, dt, bm=bm_plain)
    cnt["state_equal_checks"] = 1
    if not torch.equal(ys, ys_plain):
        viol.append({"mechanism": "logqp_disturbs_state",
                     "detail": f"max diff {float((ys - ys_plain).abs().max()):.3e} {ctx}"})
    # additivity under refinement / coarsening of the output times
    ys2, lq2 = zoo.solve(cell, sde, y0, torch.tensor([tsl[0], tsl[-1]]), dt, bm=bm_full(), logqp=True)
    e = float(((lq.sum(0) - lq2[0]).abs() / (1e-300 + lq2[0].abs() + 1e-6)).max())
    mx["additivity_rel"] = e
    cnt["additivity_checks"] = 1
    if not e <= THRESHOLDS["additive_rel"]:
        viol.append({"mechanism": "logqp_not_additive", "detail": f"rel {e:.3e} {ctx}"})
    if case["family"] == "exact":
        want = 0.5 * float((c ** 2).sum()) * (ts[1:] - ts[:-1]).unsqueeze(1).expand(-1, B)
        e = float(((lq - want).abs() / want.abs()).max())
        mx["exact_rel"] = e
        cnt["exact_runs"] = 1
        if not e <= THRESHOLDS["exact_rel"]:
            viol.append({"mechanism": f"logqp_exact_case_wrong:{nt}",
                         "detail": f"rel {e:.3e} got {lq[0, 0]:.10g} want {want[0, 0]:.10g} {ctx}"})
    else:
        aug = HandAug(sde)
        ya0 = torch.cat([y0, torch.zeros(B, 1)], dim=1)
        ya = zoo.solve(cell, aug, ya0, ts, dt, bm=bm_full())
        want = ya[1:, :, -1] - ya[:-1, :, -1]
        e = float(((lq - want).abs() / (want.abs() + 1e-9)).max())
        mx["generic_rel"] = e
        cnt["generic_runs"] = 1
        if not e <= THRESHOLDS["generic_rel"]:
            viol.append({"mechanism": f"logqp_differs_from_hand_augmented:{nt}", "detail": f"rel {e:.3e} {ctx}"})
        if not torch.equal(ya[:, :, :-1], ys) and float((ya[:, :, :-1] - ys).abs().max()) > 1e-12:
            viol.append({"mechanism": "hand_augmented_state_differs", "detail": ctx})
    cnt["diagonal_runs"] = int(nt == "diagonal")
    cnt["general_runs"] = int(nt == "general")
    return {"violations": viol, "counters": cnt, "max": mx,
            "nontrivial": nsteps >= 3 and float(lq.max()) > 0,
            "sample": {"cell": zoo.cell_name(cell), "family": case["family"], "ts": tsl, "logqp00": float(lq[0, 0]), **mx}}
