"""C10 - the reversible Heun adjoint reproduces backprop gradients to rounding error.

Differential monitor: gradients (y0 and all parameters) from sdeint_adjoint(reversible_heun, adjoint_reversible_heun)
vs backprop through sdeint(reversible_heun), same Brownian object. SolverProbe logs the step intervals of both
passes; each case is classified from what actually happened:
  A  forward and mirrored backward step intervals coincide bit for bit          -> threshold 1e-9
  B  same number of steps, grid times differ by ulps (decimal dt)               -> 1e-9 with the backward queries
     snapped to the forward grid times (both passes then see identical Brownian increments), 1e-6 unsnapped
  C  one pass takes a (sliver) step the other does not                           -> 1e-9 demanded, no excuse
"""
import random

import torch

from .. import env, probes, revgrid, zoo

ID = "C10"
LEVEL = "exploration"
RULE = ("case = (noise type, sizes up to batch 8 / state 5 / noise 4, dt dyadic|decimal, 1-9 aligned output times, loss "
        "weights, SDE seed); non-trivial = >= 4 steps and gradient norm > 1e-6; distinct = distinct case keys")
ASSUMPTIONS = ["decimal grids (class B): Brownian increments over intervals whose end points differ by one ulp differ by "
               "~sqrt(ulp); the 1e-9 bound is therefore demanded with backward query times snapped to the forward "
               "grid times (unsnapped: 1e-6)"]
REQUIRED_COUNTERS = ["class_A", "class_B", "multi_output_cases", "noise_diagonal", "noise_scalar", "noise_additive",
                     "noise_general", "loss_subset_not_last", "loss_subset_one_interior", "negative_times",
                     "chunked_with_extra_state", "far_time_axis", "renamed_methods_cases", "extreme_time_axis",
                     "time_switched_parameter_sets", "default_dtype_float32_cases"]
THRESHOLDS = {"A": 1e-9, "B_snapped": 1e-9, "B_unsnapped": 1e-6, "C": 1e-9}


def cases(tier, seed):
    reps = 14 if tier == "quick" else 1200
    out = []
    for nt in zoo.NOISE_TYPES:
        for r in range(reps):
            out.append({"key": f"{nt}-{r}", "noise_type": nt,
                        "rseed": hash((seed, zoo.NOISE_TYPES.index(nt), r)) % (2 ** 31), "cost": 2})
    return out


def _grads(fn, sde, y0v, w):
    for p in sde.parameters():
        p.grad = None
    y0 = y0v.clone().requires_grad_(True)
    ys = fn(sde, y0)
    (ys * w).sum().backward()
    return torch.cat([y0.grad.flatten()] + [(p.grad if p.grad is not None else torch.zeros_like(p)).flatten()
                                            for p in sde.parameters()])


def run_case(case):
    import torchsde
    nt = case["noise_type"]
    rng = random.Random(case["rseed"])
    viol, cnt, mx = [], {}, {}
    B, d, m = rng.choice([1, 2, 8]), rng.choice([1, 2, 5]), rng.choice([1, 2, 4])
    sde = zoo.NeuralSDE(d, m, nt, "stratonovich", seed=rng.randrange(10 ** 6), gscale=0.6)
    kind = rng.choice(["dyadic", "decimal", "decimal"])
    dt = rng.choice([2.0 ** -3, 2.0 ** -4, 2.0 ** -5]) if kind == "dyadic" else rng.choice([0.05, 0.1, 0.01, 0.025])
    nsteps = rng.choice([4, 10, 20, 30]) if dt > 0.02 else rng.choice([20, 50])
    t0 = rng.choice([0.0, 0.0, 1.0, -0.5, -2.0]) if kind == "dyadic" else rng.choice([0.0, 0.0, 0.3, -0.4])
    # exact grids on time axes far from zero relative to the step (|t|/dt >= 1e5): the times stay exactly
    # representable, so these are class A cases in which any end-of-interval logic that compares times relative to |t|
    # instead of relative to dt shows up as forward and backward passes taking different steps
    if kind == "dyadic" and rng.random() < 0.45:
        t0, dt = rng.choice([(1024.0, 2.0 ** -7), (-2048.0, 2.0 ** -6), (64.0, 2.0 ** -11), (4096.0, 2.0 ** -5),
                             (1048576.0, 2.0 ** -4), (-524288.0, 2.0 ** -5), (2097152.0, 2.0 ** -3),
                             (-1048576.0, 2.0 ** -6)])  # |t|/dt from 1.3e5 up to 6.7e7
        cnt["extreme_time_axis"] = int(abs(t0) / dt > 1e6)
        nsteps = rng.choice([10, 20, 30])
        cnt["far_time_axis"] = 1
    cnt["negative_times"] = int(t0 < 0)
    k = rng.choice([1, 1, 2, 3, 8])  # number of output intervals (1-9 output times)
    k = min(k, nsteps)
    idx = sorted(rng.sample(range(1, nsteps), k - 1)) + [nsteps]
    tsl = [t0] + [t0 + i * dt for i in idx]
    ts = torch.tensor(tsl)
    gen = torch.Generator().manual_seed(case["rseed"])
    y0v = torch.randn(B, d, generator=gen)
    w = torch.randn(len(tsl), B, d, generator=gen)
    # which parameters take part may depend on WHEN the SDE is evaluated (drift/diffusion switch networks half-way)
    if rng.random() < 0.25:
        other = zoo.NeuralSDE(d, m, nt, "stratonovich", seed=rng.randrange(10 ** 6), gscale=0.6)
        sde = zoo.TimeSwitched(sde, other, t0 + (nsteps // 2) * dt + 0.5 * dt)
        cnt["time_switched_parameter_sets"] = 1
    # the process default dtype is float32 in a third of the cases (all data explicitly float64)
    under_f32 = rng.random() < 0.33
    cnt["default_dtype_float32_cases"] = int(under_f32)
    # losses on subsets of the output times (exact zeros elsewhere): dense / not on the final time / one interior time /
    # only the final time
    subset = rng.choice(["all", "all", "not_last", "one_interior", "last"]) if len(tsl) > 2 else "all"
    mask = torch.ones(len(tsl))
    if subset == "not_last":
        mask[-1] = 0
    elif subset == "one_interior":
        mask[:] = 0
        mask[rng.randrange(1, len(tsl) - 1)] = 1
    elif subset == "last":
        mask[:-1] = 0
    w = w * mask.reshape(-1, 1, 1)
    cnt["loss_subset_" + subset] = 1
    entropy = rng.randrange(1, 10 ** 9)
    ctx = f"noise={nt} B={B} d={d} m={sde.m} dt={dt} ts={tsl} loss_on={subset}"

    def mk():
        return torchsde.BrownianInterval(t0=tsl[0], t1=tsl[-1], size=(B, sde.m), entropy=entropy, dtype=torch.float64)

    # variant: checkpoint-restart use - the solve is split at an output time, the returned extra state is handed to the
    # second call, and the loss also reads the final extra state (so gradient has to flow through the returned state)
    chunked = len(tsl) > 2 and rng.random() < 0.3
    cnt["chunked_with_extra_state"] = int(chunked)
    cut = rng.randrange(1, len(tsl) - 1) if chunked else None
    we = [torch.randn(s_, generator=gen) for s_ in ((B, d), (B, d) if nt == "diagonal" else (B, d, sde.m), (B, d))]

    # a third of the cases hands drift and diffusion over under other names (names=...): the module's parameters are
    # still the default adjoint parameters
    renamed = rng.random() < 0.33
    cnt["renamed_methods_cases"] = int(renamed)
    sde_used = zoo.Renamed(sde) if renamed else sde
    nkw = {"names": dict(zoo.Renamed.NAMES)} if renamed else {}
    ctx += f" renamed={renamed} chunked={chunked}"

    def solve(fn, s, y, bm, **kw):
        kw = dict(kw, **nkw)
        s = sde_used
        if not chunked:
            return fn(s, y, ts, bm=bm, method="reversible_heun", dt=dt, **kw)
        ys1, ex = fn(s, y, ts[:cut + 1], bm=bm, method="reversible_heun", dt=dt, extra=True, **kw)
        ys2, ex2 = fn(s, ys1[-1], ts[cut:], bm=bm, method="reversible_heun", dt=dt, extra=True, extra_solver_state=ex, **kw)
        tail = sum((e * q).sum() for e, q in zip(ex2, we))
        # (the extra term is folded into the last output so that the caller's (ys * w).sum() sees it)
        ys = torch.cat([ys1, ys2[1:]], 0)
        return ys, tail

    def compare(wrap):
        bm1, bm2 = wrap(mk()), wrap(mk())
        pr = probes.SolverProbe(keep_states=False)

        def grads_of(fn, bm, **kw):
            for p in sde.parameters():
                p.grad = None
            y0 = y0v.clone().requires_grad_(True)
            out = solve(fn, sde, y0, bm, **kw)
            loss = (out * w).sum() if not chunked else (out[0] * w).sum() + out[1]
            loss.backward()
            return torch.cat([y0.grad.flatten()] + [(p.grad if p.grad is not None else torch.zeros_like(p)).flatten()
                                                    for p in sde.parameters()])
        with env.default_dtype(torch.float32 if under_f32 else torch.float64):
            g_bp = grads_of(torchsde.sdeint, bm1)
            with pr.installed():
                g_adj = grads_of(torchsde.sdeint_adjoint, bm2, adjoint_method="adjoint_reversible_heun")
        nfwd = 2 if chunked else 1  # forward solvers are created first (one per sdeint_adjoint call)
        fwd = [(s["t0"], s["t1"]) for s in pr.steps if s["solver"] < nfwd]
        bwd = sorted((-s["t1"], -s["t0"]) for s in pr.steps if s["solver"] >= nfwd)
        rel = float((g_bp - g_adj).norm() / g_bp.norm())
        return rel, fwd, bwd, float(g_bp.norm())

    rel, fwd, bwd, gn = compare(lambda b: b)
    cls = revgrid.classify(fwd, bwd, dt)
    cnt[f"class_{cls}"] = 1
    cnt[f"noise_{nt}"] = 1
    cnt["multi_output_cases"] = int(len(tsl) > 2)
    mx[f"rel_{cls}"] = rel
    sample = {"noise": nt, "dt": dt, "steps_forward": len(fwd), "steps_backward": len(bwd), "class": cls,
              "rel_err": rel, "outputs": len(tsl)}
    if cls == "A":
        if not rel <= THRESHOLDS["A"]:
            viol.append({"mechanism": "reversible_adjoint_mismatch:exact_grid", "detail": f"rel {rel:.3e} {ctx}"})
    elif cls == "B":
        if not rel <= THRESHOLDS["B_unsnapped"]:
            viol.append({"mechanism": "reversible_adjoint_mismatch:decimal_grid", "detail": f"rel {rel:.3e} {ctx}"})
        grid = [fwd[0][0]] + [b for _, b in fwd]
        rel2, fwd2, bwd2, _ = compare(lambda b: revgrid.SnapBrownian(b, grid, 1e-9 * dt))
        mx["rel_B_snapped"] = rel2
        sample["rel_err_snapped"] = rel2
        if not rel2 <= THRESHOLDS["B_snapped"]:
            viol.append({"mechanism": "reversible_adjoint_mismatch:decimal_grid_snapped",
                         "detail": f"rel {rel2:.3e} (unsnapped {rel:.3e}) {ctx}"})
    else:
        cnt["class_C_sliver"] = int(revgrid.has_sliver(fwd, dt) != revgrid.has_sliver(bwd, dt))
        if not rel <= THRESHOLDS["C"]:
            which = ("sliver_step_in_one_pass_only" if cnt["class_C_sliver"] else "step_grids_differ")
            viol.append({"mechanism": f"reversible_adjoint_mismatch:{which}",
                         "detail": f"rel {rel:.3e}; forward {len(fwd)} steps (last {fwd[-1]}), backward {len(bwd)} steps "
                                   f"(first {bwd[0]}, last {bwd[-1]}) {ctx}"})
    return {"violations": viol, "counters": cnt, "max": mx, "nontrivial": len(fwd) >= 4 and gn > 1e-6, "sample": sample}
