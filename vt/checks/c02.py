"""C02 - each solver step matches the stochastic Taylor expansion of the declared SDE.

Monitor: the REAL solver classes are instantiated through methods.select on a ForwardSDE and their `step` is called
directly; a StubBrownian serves prescribed increments  dW = a sqrt(h),  H = b sqrt(h/12)  (U = h (dW/2 + H)),
A = H(x)W - W(x)H (+ a prescribed antisymmetric part), so the step becomes a deterministic function of h.
Oracles (independent of the library's algebra):
  exact     closed-form families: the exact one-step solution as a function of (h, W, U)  (= full Taylor series)
  taylor    generated smooth multi-dimensional SDEs: truncated Ito-/Stratonovich-Taylor expansions built from dense
            Jacobians / Hessians (torch.autograd.functional), orders 0.5, 1.0 and 1.5
  textbook  Euler and derivative Milstein: exact equality with the textbook formula from the dense Jacobian
Verdict (p = the live solver's strong_order): pathwise residual slope in h >= p + 1/2 - margin; slope of the
Gauss-Hermite mean of the residual >= p + 1 - margin.
"""
import itertools
import math
import random

import numpy as np
import torch
from torch.autograd.functional import jacobian

from .. import closed_forms as cf
from .. import probes, zoo
from torchsde._core import base_sde, methods

ID = "C02"
LEVEL = "exploration"
RULE = ("case = (solver x noise cell, oracle exact|taylor|textbook, SDE family/seed, base point (t, y)); h = 2^-3..2^-12, "
        "Gauss-Hermite nodes of the increments ride in the batch; non-trivial = pathwise residual above the rounding "
        "floor on >= 4 step sizes (slope measurable) or an exact-equality comparison on a state of size >= 2; "
        "distinct = distinct case keys")
ASSUMPTIONS = ["this family cannot prove the symbolic statement: exploration over generated programs and base points",
               "slopes fitted over the five finest levels where the residual exceeds 1e-12 (the statement is about h -> 0; coarse levels are pre-asymptotic for the nonlinear families); margins 0.2 (pathwise) / 0.3 (mean)",
               "reversible Heun is started from its consistent extra state (z0 = y0, f0 = f(y0), g0 = g(y0))"]
REQUIRED_COUNTERS = ["exact_cases", "taylor_cases", "textbook_cases", "pathwise_slopes", "mean_slopes",
                     "taylor_order_1.5", "taylor_order_1.0", "taylor_order_0.5", "stub_calls_checked",
                     "second_step_of_solver_object_cases"]
THRESHOLDS = {"pathwise_margin": 0.2, "mean_margin": 0.3, "textbook_rel": 1e-13}
LEVELS = list(range(3, 13))


def cases(tier, seed):
    out = []
    reps = 1 if tier == "quick" else 30
    for ci, cell in enumerate(zoo.matrix()):
        fams = [n for n, _ in cf.families_for(cell["noise_type"], cell["sde_type"])]
        for fi, fname in enumerate(fams):
            for r in range(reps):
                out.append({"key": f"exact-{zoo.cell_name(cell)}-{fname}-{r}", "oracle": "exact", "cell": cell,
                            "family": fname, "rseed": hash((seed, ci, fi, r)) % (2 ** 31), "cost": 2})
        for r in range(2 * reps):
            out.append({"key": f"taylor-{zoo.cell_name(cell)}-{r}", "oracle": "taylor", "cell": cell,
                        "rseed": hash((seed, ci, 50 + r)) % (2 ** 31), "cost": 6})
        if cell["method"] in ("euler", "milstein") and not cell["options"]:
            for r in range(3 * reps):
                out.append({"key": f"textbook-{zoo.cell_name(cell)}-{r}", "oracle": "textbook", "cell": cell,
                            "rseed": hash((seed, ci, 90 + r)) % (2 ** 31), "cost": 1})
    return out


# ------------------------------------------------------------------------------------------------------
def gh_nodes(dim, n):
    """Gauss-Hermite nodes/weights for a standard normal in `dim` dimensions (probabilists' convention)."""
    x, w = np.polynomial.hermite_e.hermegauss(n)
    w = w / w.sum()
    pts = np.array(list(itertools.product(x, repeat=dim))) if dim else np.zeros((1, 0))
    wts = np.array([np.prod(c) for c in itertools.product(w, repeat=dim)]) if dim else np.ones(1)
    return torch.tensor(pts), torch.tensor(wts)


def make_solver(cell, sde, stub):
    fs = base_sde.ForwardSDE(sde)
    cls = methods.select(cell["method"], cell["sde_type"])
    opts = dict(cell["options"]) if cell["options"] else {}
    solver = cls(sde=fs, bm=stub, dt=0.1, adaptive=False, rtol=0.0, atol=0.0, dt_min=0.0, options=opts)
    return solver, fs


WARM = {"on": False}  # set per case: the measured step is the solver object's SECOND step (see one_step)


def one_step(cell, sde, t0, h, y0, W, H, Aextra=None):
    """Run the real solver's step with prescribed increments. Returns y1 and the stub (for call accounting).

    With WARM["on"] the same solver object first takes a throw-away step of a DIFFERENT length (0.37 * dt of the solver,
    from another state): the property is about every step, and a step must not depend on steps the object took before
    (per-object caches of step constants and the like)."""
    U = h * (0.5 * W + H)
    A = H.unsqueeze(-1) * W.unsqueeze(-2) - W.unsqueeze(-1) * H.unsqueeze(-2)
    if Aextra is not None:
        A = A + Aextra
    levy = zoo.levy_for(cell["method"])
    stub = probes.StubBrownian(W, U, A, levy=levy if levy != "none" else "none")
    solver, fs = make_solver(cell, sde, stub)
    t0 = torch.as_tensor(t0)
    t1 = t0 + h
    if WARM["on"]:
        tw = t0 - 0.037
        yw = y0 * 0.5 + 0.1
        solver.step(tw, t0, yw, solver.init_extra_solver_state(tw, yw))
        stub.calls.clear()
    extra = solver.init_extra_solver_state(t0, y0)
    y1, _ = solver.step(t0, t1, y0, extra)
    return y1, stub, float(solver.strong_order)


def expected_flags(method):
    return {"srk": (True, False), "log_ode": (False, True)}.get(method, (False, False))


def slope(hs, vals, floor=1e-12):
    pts = [(math.log(h), math.log(v)) for h, v in zip(hs, vals) if v > floor]
    if len(pts) < 4:
        return None
    pts = pts[-5:]  # the statement is about h -> 0: fit on the finest (asymptotic) levels above the rounding floor
    xs, ys = zip(*pts)
    mx_, my = sum(xs) / len(xs), sum(ys) / len(ys)
    return sum((x - mx_) * (y - my) for x, y in zip(xs, ys)) / sum((x - mx_) ** 2 for x in xs)


def slope_end_to_end(hs, vals, floor=1e-12):
    """slope between the coarsest and the finest level above the rounding floor"""
    pts = [(math.log(h), math.log(v)) for h, v in zip(hs, vals) if v > floor]
    if len(pts) < 4:
        return None
    return (pts[0][1] - pts[-1][1]) / (pts[0][0] - pts[-1][0])


def judge(cell, order, hs, path_res, mean_res, ctx, viol, cnt, mx, tag):
    sp, sm = slope(hs, path_res), slope(hs, mean_res)
    # The mean residual is a signed quantity whose norm is fitted: when its leading term changes sign inside the fitting
    # window the five-level fit dips (seen in the thorough tier: local slopes 2.7 2.9 3.1 3.4 4.3 2.8 1.1 2.0 2.2 for a
    # scheme of mean order 2.5 - a zero crossing near h = 2^-8, not a lower-order term). A lower-order term lowers the
    # slope everywhere, so a deficit is charged only if the slope over the whole range of step sizes confirms it.
    sm_all = slope_end_to_end(hs, mean_res)
    if sm is not None and sm_all is not None and sm < order + 1.0 - THRESHOLDS["mean_margin"] <= sm_all - 0.3:
        cnt["mean_fit_dips_not_confirmed_end_to_end"] = cnt.get("mean_fit_dips_not_confirmed_end_to_end", 0) + 1
        sm = sm_all
    name = zoo.cell_name(cell)
    if sp is not None:
        cnt["pathwise_slopes"] = cnt.get("pathwise_slopes", 0) + 1
        mx[f"pathwise_deficit_{tag}"] = max(mx.get(f"pathwise_deficit_{tag}", -9), order + 0.5 - sp)
        if not sp >= order + 0.5 - THRESHOLDS["pathwise_margin"]:
            viol.append({"mechanism": f"step_differs_from_taylor_pathwise:{name}",
                         "detail": f"slope {sp:.3f} < {order}+1/2; residuals {[f'{v:.2e}' for v in path_res]} {ctx}"})
    if sm is not None:
        cnt["mean_slopes"] = cnt.get("mean_slopes", 0) + 1
        mx[f"mean_deficit_{tag}"] = max(mx.get(f"mean_deficit_{tag}", -9), order + 1.0 - sm)
        if not sm >= order + 1.0 - THRESHOLDS["mean_margin"]:
            viol.append({"mechanism": f"step_mean_differs_from_taylor:{name}",
                         "detail": f"slope {sm:.3f} < {order}+1; mean residuals {[f'{v:.2e}' for v in mean_res]} {ctx}"})
    return sp, sm


def nodes_for(cell, m, rng):
    """(a, b, weights): a drives dW, b drives H (only if the solver consumes U or A)."""
    useH = cell["method"] in ("srk", "log_ode")
    dim = m * (2 if useH else 1)
    n = 10 if dim <= 2 else (7 if dim <= 4 else 4)
    pts, wts = gh_nodes(dim, n)
    a = pts[:, :m]
    b = pts[:, m:] if useH else torch.zeros(pts.size(0), m)
    return a, b, wts


def run_exact(case):
    cell = case["cell"]
    rng = random.Random(case["rseed"])
    viol, cnt, mx = [], {}, {}
    fam = dict(cf.families_for(cell["noise_type"], cell["sde_type"], seed=rng.randrange(1000)))[case["family"]]
    gen = torch.Generator().manual_seed(case["rseed"])
    t0 = rng.choice([0.0, 0.4, 1.7])
    ybase = fam.y0(1, gen)
    a, b, wts = nodes_for(cell, fam.m, rng)
    if fam.needs_U and not cell["method"] in ("srk", "log_ode"):
        # the exact solution needs U although the solver does not consume it: integrate b out as well
        pts, wts = gh_nodes(2 * fam.m, 7 if fam.m == 1 else 5)
        a, b = pts[:, :fam.m], pts[:, fam.m:]
    N = a.size(0)
    y0 = ybase.expand(N, -1).contiguous()
    hs, pres, mres = [], [], []
    order = None
    with torch.no_grad():
        for k in LEVELS:
            h = 2.0 ** -k
            W, H = a * math.sqrt(h), b * math.sqrt(h / 12)
            y1, stub, order = one_step(cell, fam, t0, h, y0, W, H)
            U = h * (0.5 * W + H)
            ex = fam.exact(t0, t0 + h, y0, W, U)
            R = y1 - ex
            pres.append(float(((R ** 2).sum(1) * wts).sum().sqrt()))
            mres.append(float(((R * wts.unsqueeze(1)).sum(0)).norm()))
            hs.append(h)
            fl = expected_flags(cell["method"])
            cnt["stub_calls_checked"] = cnt.get("stub_calls_checked", 0) + 1
            if len(stub.calls) != 1 or (stub.calls[0][2], stub.calls[0][3]) != fl:
                viol.append({"mechanism": "unexpected_brownian_queries_in_step",
                             "detail": f"{zoo.cell_name(cell)} calls={stub.calls}"})
                break
    ctx = f"oracle=exact family={case['family']} t0={t0} y={ybase.tolist()} nodes={N}"
    sp, sm = judge(cell, order, hs, pres, mres, ctx, viol, cnt, mx, "exact")
    cnt["exact_cases"] = 1
    return {"violations": viol, "counters": cnt, "max": mx, "nontrivial": sp is not None,
            "sample": {"cell": zoo.cell_name(cell), "family": case["family"], "advertised": order,
                       "pathwise_slope": sp, "mean_slope": sm, "residual_h=2^-3": pres[0], "residual_h=2^-10": pres[-1]}}


# ------------------------------------------------------------------------------------------------------
class Dense:
    """Dense per-sample derivatives of a (row-wise) SDE at a base point, via torch.autograd.functional."""

    def __init__(self, sde, t, y):
        self.sde, self.t, self.y = sde, torch.as_tensor(t), y  # y: (d,)
        self.nt = sde.noise_type

    def f(self, t, y):
        return self.sde.f(t, y.unsqueeze(0))[0]

    def G(self, t, y):
        g = self.sde.g(t, y.unsqueeze(0))[0]
        return torch.diag_embed(g) if self.nt == "diagonal" else g  # (d, m)

    def f_ito(self, t, y):
        """Ito drift of the declared SDE (adds 1/2 sum_k (dG_k) G_k for a Stratonovich declaration)."""
        if self.sde.sde_type == "ito":
            return self.f(t, y)
        G = self.G(t, y)
        JG = jacobian(lambda q: self.G(t, q), y, create_graph=True)  # (d, m, d)
        return self.f(t, y) + 0.5 * torch.einsum("ikj,jk->i", JG, G)

    def L1(self, phi, k):
        """(L^k phi)(t, y) = J_phi G_k."""
        def out(t, y):
            J = jacobian(lambda q: phi(t, q), y, create_graph=True)
            return J @ self.G(t, y)[:, k]
        return out

    def L0(self, phi, drift):
        """(L^0 phi) = d_t phi + J_phi drift + 1/2 sum_k G_k^T Hess(phi) G_k   (Ito generator, drift = Ito drift)."""
        def out(t, y):
            Jt = jacobian(lambda s: phi(s, y), t, create_graph=True)
            J = jacobian(lambda q: phi(t, q), y, create_graph=True)
            Hs = jacobian(lambda q: jacobian(lambda r: phi(t, r), q, create_graph=True), y, create_graph=True)
            G = self.G(t, y)
            return Jt + J @ drift(t, y) + 0.5 * torch.einsum("jk,ijl,lk->i", G, Hs, G)
        return out


def taylor_reference(sde, t0, ybase, order):
    """Returns fn(h, W, H, A) -> (T_path, T_mean) for one base point; W, H: (N, m), A: (N, m, m)."""
    D = Dense(sde, t0, ybase)
    t, y = D.t, ybase
    m = D.G(t, y).size(1)
    strat = sde.sde_type == "stratonovich"
    f = D.f(t, y)
    f_ito = D.f_ito(t, y).detach()
    G = D.G(t, y).detach()
    terms = {}
    if order >= 1.0:
        # sum_{k,l} (J_{G_l} G_k) J_{kl},  J_{kl} = 1/2 dW_k dW_l (- 1/2 delta h for Ito) + A_kl
        JG = jacobian(lambda q: D.G(t, q), y)  # (d, m, d)
        terms["LG"] = torch.einsum("ilj,jk->ikl", JG, G)  # [i, k, l] = (L^k G_l)_i
    if order >= 1.5:
        fi = D.f_ito if strat else D.f
        Gk = [(lambda tt, yy, k=k: D.G(tt, yy)[:, k]) for k in range(m)]
        terms["L1f"] = torch.stack([D.L1(fi, k)(t, y) for k in range(m)], 1).detach()  # (d, m)
        terms["L0G"] = torch.stack([D.L0(Gk[k], fi)(t, y) for k in range(m)], 1).detach()
        terms["L1L1G"] = torch.stack([D.L1(D.L1(Gk[k], k), k)(t, y) for k in range(m)], 1).detach()
        terms["L0f"] = D.L0(fi, fi)(t, y).detach()
    f = f.detach()

    def ref(h, W, H, A):
        N = W.size(0)
        T = y.unsqueeze(0) + W @ G.T
        mean = y + f_ito * h
        if order >= 1.0:
            T = T + (f if True else f_ito).unsqueeze(0) * h
            J = 0.5 * W.unsqueeze(-1) * W.unsqueeze(-2) + A  # (N, k, l)
            if not strat:
                J = J - 0.5 * h * torch.eye(m)
            T = T + torch.einsum("ikl,nkl->ni", terms["LG"], J)
        if order >= 1.5:
            U = h * (0.5 * W + H)
            T = T + U @ terms["L1f"].T + (h * W - U) @ terms["L0G"].T \
                + ((W ** 3 - 3 * h * W) / 6) @ terms["L1L1G"].T + 0.5 * terms["L0f"] * h ** 2
            mean = mean + 0.5 * terms["L0f"] * h ** 2
        return T, mean
    return ref


def run_taylor(case):
    cell = case["cell"]
    rng = random.Random(case["rseed"])
    viol, cnt, mx = [], {}, {}
    nt = cell["noise_type"]
    d = rng.choice([2, 3])
    m = 2
    sde = zoo.cell_sde(cell, d=d, m=m, seed=rng.randrange(10 ** 6), gscale=rng.choice([0.6, 1.0]))
    if cell["method"] == "srk" and cell["sde_type"] != "ito":
        return {"inconclusive": ["unexpected cell"]}
    mm = sde.m
    gen = torch.Generator().manual_seed(case["rseed"])
    t0 = rng.choice([0.0, 0.6, -0.8])
    ybase = torch.randn(d, generator=gen)
    a, b, wts = nodes_for(cell, mm, rng)
    N = a.size(0)
    y0 = ybase.unsqueeze(0).expand(N, -1).contiguous()
    # a prescribed extra antisymmetric part of the Levy area (only consumed by log_ode)
    Ax = torch.randn(mm, mm, generator=gen)
    Ax = (Ax - Ax.T) * 0.5
    hs, pres, mres, order = [], [], [], None
    ref = None
    with torch.no_grad():
        for k in LEVELS:
            h = 2.0 ** -k
            W, H = a * math.sqrt(h), b * math.sqrt(h / 12)
            Aextra = (Ax * h).unsqueeze(0).expand(N, -1, -1) if cell["method"] == "log_ode" else None
            with torch.enable_grad():
                y1, stub, order = one_step(cell, sde, t0, h, y0, W, H, Aextra)
            y1 = y1.detach()
            if ref is None:
                with torch.enable_grad():
                    ref = taylor_reference(sde, t0, ybase, order)
            A = H.unsqueeze(-1) * W.unsqueeze(-2) - W.unsqueeze(-1) * H.unsqueeze(-2)
            if Aextra is not None:
                A = A + Aextra
            elif cell["method"] != "log_ode":
                A = torch.zeros(N, mm, mm)
            T, mean = ref(h, W, H, A)
            R = y1 - T
            pres.append(float(((R ** 2).sum(1) * wts).sum().sqrt()))
            # mean of the step over the increments vs the mean of the true solution (E[extra A part] = 0 -> drop it)
            if Aextra is not None:
                with torch.enable_grad():
                    y1m, _, _ = one_step(cell, sde, t0, h, y0, W, H, None)
                y1m = y1m.detach()
            else:
                y1m = y1
            mres.append(float(((y1m * wts.unsqueeze(1)).sum(0) - mean).norm()))
            hs.append(h)
    ctx = f"oracle=taylor order={order} noise={nt} d={d} m={mm} t0={t0} nodes={N}"
    if nt == "general" and order >= 1.0:
        return {"inconclusive": [f"order-{order} claim for general noise is outside the references built here"]}
    sp, sm = judge(cell, order, hs, pres, mres, ctx, viol, cnt, mx, "taylor")
    cnt["taylor_cases"] = 1
    cnt[f"taylor_order_{order}"] = 1
    return {"violations": viol, "counters": cnt, "max": mx, "nontrivial": sp is not None,
            "sample": {"cell": zoo.cell_name(cell), "advertised": order, "pathwise_slope": sp, "mean_slope": sm,
                       "residual_h=2^-3": pres[0], "residual_h=2^-10": pres[-1], "d": d, "m": mm}}


def run_textbook(case):
    """Euler:  y + f h + G dW.   Milstein: + sum_k (J_{G_k} G_k) (dW_k^2 - h [Ito]) / 2   (diag / scalar / additive)."""
    cell = case["cell"]
    rng = random.Random(case["rseed"])
    viol, cnt, mx = [], {}, {}
    d, B = rng.choice([2, 3, 4]), 3
    sde = zoo.cell_sde(cell, d=d, m=rng.choice([1, 2, 3]), seed=rng.randrange(10 ** 6), gscale=1.0)
    mm = sde.m
    gen = torch.Generator().manual_seed(case["rseed"])
    t0 = torch.tensor(rng.uniform(-1, 2))
    h = rng.choice([0.5, 0.1, 0.013])
    y0 = torch.randn(B, d, generator=gen)
    W = torch.randn(B, mm, generator=gen) * math.sqrt(h)
    H = torch.zeros(B, mm)
    y1, stub, order = one_step(cell, sde, t0, h, y0, W, H)
    want = []
    for bidx in range(B):
        D = Dense(sde, t0, y0[bidx])
        G = D.G(t0, y0[bidx])
        out = y0[bidx] + D.f(t0, y0[bidx]) * h + G @ W[bidx]
        if cell["method"] == "milstein":
            JG = jacobian(lambda q: D.G(t0, q), y0[bidx])  # (d, m, d)
            v = W[bidx] ** 2 - (h if cell["sde_type"] == "ito" else 0.0)
            out = out + 0.5 * torch.einsum("ikj,jk,k->i", JG, G, v)
        want.append(out)
    want = torch.stack(want).detach()
    e = float(((y1.detach() - want).abs() / (1 + want.abs())).max())
    mx["textbook_rel_err"] = e
    cnt["textbook_cases"] = 1
    if not e <= THRESHOLDS["textbook_rel"]:
        viol.append({"mechanism": f"step_differs_from_textbook_formula:{zoo.cell_name(cell)}",
                     "detail": f"rel err {e:.3e} h={h} d={d} m={mm}"})
    return {"violations": viol, "counters": cnt, "max": mx, "nontrivial": d >= 2,
            "sample": {"cell": zoo.cell_name(cell), "h": h, "rel_err": e}}


def run_case(case):
    WARM["on"] = bool(case["rseed"] % 2)
    res = _run_case(case)
    res.setdefault("counters", {})["second_step_of_solver_object_cases"] = int(WARM["on"])
    return res


def _run_case(case):
    return {"exact": run_exact, "taylor": run_taylor, "textbook": run_textbook}[case["oracle"]](case)
