"""C17 - special noise types agree with their general-noise embedding (differential monitor)."""
import random

import torch

from .. import zoo

ID = "C17"
LEVEL = "exploration"
RULE = ("case = (special noise type, solver accepting general noise, sizes, ts/dt) ; non-trivial = >= 3 steps and state "
        "size >= 2; distinct = distinct case keys")
ASSUMPTIONS = ["agreement demanded to 1e-12 relative (the embedding adds exact zeros, but bmm and element-wise "
               "products may round differently)"]
REQUIRED_COUNTERS = ["runs_diagonal", "runs_scalar", "runs_additive", "log_ode_runs", "adaptive_runs"]
THRESHOLDS = {"rel": 1e-12}
SOLVERS = [("ito", "euler"), ("stratonovich", "euler_heun"), ("stratonovich", "heun"), ("stratonovich", "midpoint"),
           ("stratonovich", "reversible_heun"), ("stratonovich", "log_ode")]


def cases(tier, seed):
    reps = 3 if tier == "quick" else 600
    out = []
    for si, (st, method) in enumerate(SOLVERS):
        for nt in ("diagonal", "scalar", "additive"):
            for r in range(reps):
                out.append({"key": f"{st[:5]}-{method}-{nt}-{r}", "sde_type": st, "method": method, "noise_type": nt,
                            "rseed": hash((seed, si, nt == "scalar", nt == "additive", r)) % (2 ** 31)})
    return out


def run_case(case):
    import torchsde
    rng = random.Random(case["rseed"])
    nt, method = case["noise_type"], case["method"]
    d, m, B = rng.choice([2, 3, 4]), rng.choice([2, 3]), rng.choice([1, 2, 5])
    sde = zoo.NeuralSDE(d, m, nt, case["sde_type"], seed=rng.randrange(10 ** 6), gscale=0.7, batch_varying=True,
                        signed=True)
    emb = zoo.GeneralEmbedding(sde)
    t0 = rng.choice([0.0, 1.5])
    ts = torch.tensor([t0, t0 + 0.31, t0 + 0.8])
    dt = rng.choice([0.1, 0.05, 0.03])
    adaptive = rng.random() < 0.2 and method != "reversible_heun"
    y0 = torch.randn(B, d, generator=torch.Generator().manual_seed(case["rseed"]))
    entropy = rng.randrange(1, 10 ** 9)
    levy = zoo.levy_for(method)
    outs = []
    for s in (sde, emb):
        bm = torchsde.BrownianInterval(t0=float(ts[0]), t1=float(ts[-1]), size=(B, sde.m), entropy=entropy,
                                       levy_area_approximation=levy)
        kw = dict(adaptive=True, rtol=1e-3, atol=1e-4, dt_min=1e-4) if adaptive else {}
        outs.append(torchsde.sdeint(s, y0, ts, bm=bm, method=method, dt=dt, **kw))
    e = float(((outs[0] - outs[1]).abs() / (1 + outs[0].abs())).max())
    viol = []
    if not e <= THRESHOLDS["rel"]:
        viol.append({"mechanism": f"special_vs_general_differs:{nt}:{method}",
                     "detail": f"rel diff {e:.3e} d={d} m={sde.m} B={B} dt={dt} adaptive={adaptive}"})
    cnt = {f"runs_{nt}": 1, "log_ode_runs": int(method == "log_ode"), "adaptive_runs": int(adaptive)}
    return {"violations": viol, "counters": cnt, "max": {"rel_diff": e}, "nontrivial": d >= 2,
            "sample": {"noise": nt, "method": method, "d": d, "m": sde.m, "B": B, "rel_diff": e}}
