"""C15 - reversible Heun is algebraically reversible.

(a) step level: the real ReversibleHeun.step forward, then the same class on the time-reversed negated SDE with the
    negated extras and the same increment must return (y0, z0, -f0, -g0) - an identity, so also for large h;
(b) trajectory level: forward with extra=True, then the reverse solve through ReverseBrownian with negated extras
    must reconstruct every forward state. Cases are classified from the logged step grids as in C10 (A exact,
    B decimal -> snapped Brownian queries, C mismatching grids).
"""
import random

import torch
from torch import nn

from .. import env, probes, revgrid, zoo
from torchsde._core import base_sde, methods

ID = "C15"
LEVEL = "exploration"
RULE = ("case = step-level (noise type, h incl. large, random (y0,z0), SDE seed) or trajectory-level (noise type, dt "
        "dyadic|decimal, n steps <= 200, SDE seed); non-trivial = state size >= 2 (step) / >= 8 steps reconstructed "
        "(trajectory); distinct = distinct case keys")
ASSUMPTIONS = ["trajectory level: n*dt kept where the reverse recursion is numerically stable (n <= 200, moderate "
               "Lipschitz constants); thresholds 1e-9*scale (exact / snapped grids), 1e-6*scale unsnapped decimal grids",
               "step level: the carried (f, g) are the vector fields at z (consistent extra state)"]
REQUIRED_COUNTERS = ["traj_forward_driven_by_reversed_motion", "step_cases", "traj_class_A", "traj_class_B", "large_h_steps", "traj_far_time_axis", "traj_list_ts_under_default_f32", "traj_offgrid_outputs",
                     "traj_reverse_leg_via_sdeint_adjoint"]
THRESHOLDS = {"step": 1e-12, "traj_exact": 1e-9, "traj_unsnapped": 1e-6}


class Minus(nn.Module):
    def __init__(self, sde):
        super().__init__()
        self.noise_type, self.sde_type = sde.noise_type, sde.sde_type
        self.f = lambda t, y: -sde.f(-t, y)
        self.g = lambda t, y: -sde.g(-t, y)


def cases(tier, seed):
    rs, rt = (12, 10) if tier == "quick" else (1800, 1200)
    out = []
    for nt in zoo.NOISE_TYPES:
        for r in range(rs):
            out.append({"key": f"step-{nt}-{r}", "kind": "step", "noise_type": nt,
                        "rseed": hash((seed, 1, zoo.NOISE_TYPES.index(nt), r)) % (2 ** 31)})
        for r in range(rt):
            out.append({"key": f"traj-{nt}-{r}", "kind": "traj", "noise_type": nt,
                        "rseed": hash((seed, 2, zoo.NOISE_TYPES.index(nt), r)) % (2 ** 31), "cost": 3})
    return out


def run_step(case):
    nt = case["noise_type"]
    rng = random.Random(case["rseed"])
    viol, cnt, mx = [], {}, {}
    B, d, m = rng.choice([1, 3]), rng.choice([2, 4]), rng.choice([2, 3])
    sde = zoo.NeuralSDE(d, m, nt, "stratonovich", seed=rng.randrange(10 ** 6), gscale=rng.choice([0.5, 1.5]))
    gen = torch.Generator().manual_seed(case["rseed"])
    h = rng.choice([1e-3, 0.05, 0.3, 1.0, 4.0])
    t0 = torch.tensor(rng.uniform(-1, 2))
    t1 = t0 + h
    y0 = torch.randn(B, d, generator=gen)
    z0 = y0 + 0.3 * torch.randn(B, d, generator=gen)
    dW = torch.randn(B, sde.m, generator=gen) * (h ** 0.5)
    stub = probes.StubBrownian(dW)
    fs = base_sde.ForwardSDE(sde)
    fwd = methods.select("reversible_heun", "stratonovich")(sde=fs, bm=stub, dt=h, adaptive=False, rtol=0, atol=0,
                                                             dt_min=0, options={})
    f0, g0 = fs.f_and_g(t0, z0)
    y1, (f1, g1, z1) = fwd.step(t0, t1, y0, (f0, g0, z0))
    rs = base_sde.ForwardSDE(Minus(sde))
    rev = methods.select("reversible_heun", "stratonovich")(sde=rs, bm=stub, dt=h, adaptive=False, rtol=0, atol=0,
                                                             dt_min=0, options={})
    yb, (fb, gb, zb) = rev.step(-t1, -t0, y1, (-f1, -g1, z1))
    scale = 1 + max(float(y1.abs().max()), float(z1.abs().max()), float(f1.abs().max()) * h)
    errs = {"y": float((yb - y0).abs().max()) / scale, "z": float((zb - z0).abs().max()) / scale,
            "f": float((fb + f0).abs().max()) / scale, "g": float((gb + g0).abs().max()) / scale}
    mx["step_err"] = max(errs.values())
    cnt["step_cases"] = 1
    cnt["large_h_steps"] = int(h >= 1.0)
    if len(stub.calls) != 2:
        viol.append({"mechanism": "unexpected_brownian_queries_in_step", "detail": str(stub.calls)})
    if not mx["step_err"] <= THRESHOLDS["step"]:
        bad = max(errs, key=errs.get)
        viol.append({"mechanism": f"reverse_step_not_inverse:{bad}",
                     "detail": f"errs={errs} h={h} noise={nt} B={B} d={d} m={sde.m}"})
    return {"violations": viol, "counters": cnt, "max": mx, "nontrivial": d >= 2,
            "sample": {"noise": nt, "h": h, **errs}}


def run_traj(case):
    import torchsde
    nt = case["noise_type"]
    rng = random.Random(case["rseed"])
    viol, cnt, mx = [], {}, {}
    B, d, m = rng.choice([1, 4]), rng.choice([2, 3]), rng.choice([2, 3])
    sde = zoo.NeuralSDE(d, m, nt, "stratonovich", seed=rng.randrange(10 ** 6), gscale=0.6)
    kind = rng.choice(["dyadic", "decimal", "decimal"])
    if kind == "dyadic":
        dt, n = rng.choice([(2.0 ** -4, 8), (2.0 ** -6, 64), (2.0 ** -3, 160), (2.0 ** -5, 100)])
    else:
        dt, n = rng.choice([(0.1, 10), (0.05, 20), (0.01, 100), (0.025, 37), (0.3, 7)])
    t0 = rng.choice([0.0, 0.0, 0.5]) if kind == "dyadic" else rng.choice([0.0, 0.0, 0.2])
    if kind == "dyadic" and rng.random() < 0.45:  # exact grids far from zero relative to the step (|t|/dt >= 1e5)
        t0, dt, n = rng.choice([(1024.0, 2.0 ** -7, 40), (-2048.0, 2.0 ** -6, 64), (64.0, 2.0 ** -11, 30),
                                (1048576.0, 2.0 ** -4, 40), (-524288.0, 2.0 ** -5, 48)])  # up to |t|/dt = 1.7e7
        cnt["traj_far_time_axis"] = 1
    ts = torch.tensor([t0 + k * dt for k in range(n + 1)])
    # outputs requested only at a few times OFF the step grid (plus the two ends): both runs must still step on the
    # dt-grid and interpolate, so the reverse run retraces the forward steps and the interpolated outputs coincide
    offgrid = rng.random() < 0.35
    cnt["traj_offgrid_outputs"] = int(offgrid)
    if offgrid:
        inner = sorted(t0 + (rng.randrange(0, n) + rng.choice([0.25, 0.5, 0.7])) * dt for _ in range(rng.choice([1, 2, 4])))
        ts = torch.tensor([t0] + sorted(set(inner)) + [t0 + n * dt])
    entropy = rng.randrange(1, 10 ** 9)
    y0 = torch.randn(B, d, dtype=torch.float64, generator=torch.Generator().manual_seed(case["rseed"]))
    # times handed over as Python lists, float64 state and Brownian motion, PyTorch's default dtype float32 (the usual
    # user set-up; the harness default is float64): the times must be taken in y0's dtype
    lists = rng.random() < 0.3
    rev_adjoint = rng.random() < 0.3
    cnt["traj_reverse_leg_via_sdeint_adjoint"] = int(rev_adjoint)
    # the forward solve may itself be driven by a reversed Brownian motion (a valid Brownian object over [t0, t1] built
    # from a path over [-t1, -t0]); "the reversed Brownian motion" of the reverse leg is then a reversal of a reversal,
    # which must be the original path again
    fwd_reversed = rng.random() < 0.3
    cnt["traj_forward_driven_by_reversed_motion"] = int(fwd_reversed)
    cnt["traj_list_ts_under_default_f32"] = int(lists)
    ctx = f"noise={nt} dt={dt} n={n} t0={t0} B={B} d={d} m={sde.m} list_ts_under_default_f32={lists} offgrid_outputs={offgrid} forward_bm_reversed={fwd_reversed}"

    def roundtrip(wrap):
        if fwd_reversed:
            bm = wrap(torchsde.ReverseBrownian(torchsde.BrownianInterval(
                -float(ts[-1]), -float(ts[0]), size=(B, sde.m), entropy=entropy, dtype=torch.float64)))
        else:
            bm = wrap(torchsde.BrownianInterval(float(ts[0]), float(ts[-1]), size=(B, sde.m), entropy=entropy,
                                                dtype=torch.float64))
        pr = probes.SolverProbe(keep_states=False)
        tf, tb = (ts.tolist(), (-ts.flip(0)).tolist()) if lists else (ts, -ts.flip(0))
        with torch.no_grad(), pr.installed(), env.default_dtype(torch.float32 if lists else torch.float64):
            ys, (f, g, z) = torchsde.sdeint(sde, y0, tf, bm=bm, method="reversible_heun", dt=dt, extra=True)
            # (the reverse leg is also run through the forward pass of sdeint_adjoint: same solve, same supplied state)
            rev = torchsde.sdeint_adjoint if rev_adjoint else torchsde.sdeint
            back = rev(Minus(sde), ys[-1], tb, bm=torchsde.ReverseBrownian(bm),
                       method="reversible_heun", dt=dt, extra_solver_state=(-f, -g, z)).detach().flip(0)
        fwd = [(s["t0"], s["t1"]) for s in pr.steps if s["solver"] == 0]
        bwd = sorted((-s["t1"], -s["t0"]) for s in pr.steps if s["solver"] == 1)
        err = float((ys - back).abs().max()) / (1 + float(ys.abs().max()))
        return err, fwd, bwd

    err, fwd, bwd = roundtrip(lambda b: b)
    cls = revgrid.classify(fwd, bwd, dt)
    cnt[f"traj_class_{cls}"] = 1
    mx[f"traj_err_{cls}"] = err
    sample = {"noise": nt, "dt": dt, "n": n, "class": cls, "err": err}
    if cls == "A":
        if not err <= THRESHOLDS["traj_exact"]:
            viol.append({"mechanism": "trajectory_not_reconstructed:exact_grid", "detail": f"err {err:.3e} {ctx}"})
    elif cls == "B":
        if not err <= THRESHOLDS["traj_unsnapped"]:
            viol.append({"mechanism": "trajectory_not_reconstructed:decimal_grid", "detail": f"err {err:.3e} {ctx}"})
        grid = [fwd[0][0]] + [b for _, b in fwd]
        err2, _, _ = roundtrip(lambda b: revgrid.SnapBrownian(b, grid, 1e-9 * dt))
        mx["traj_err_B_snapped"] = err2
        sample["err_snapped"] = err2
        if not err2 <= THRESHOLDS["traj_exact"]:
            viol.append({"mechanism": "trajectory_not_reconstructed:decimal_grid_snapped",
                         "detail": f"err {err2:.3e} (unsnapped {err:.3e}) {ctx}"})
    else:
        if not err <= THRESHOLDS["traj_exact"]:
            which = "sliver_step_in_one_pass_only" if revgrid.has_sliver(fwd, dt) != revgrid.has_sliver(bwd, dt) \
                else "step_grids_differ"
            viol.append({"mechanism": f"trajectory_not_reconstructed:{which}",
                         "detail": f"err {err:.3e}; forward {len(fwd)} steps, backward {len(bwd)} steps {ctx}"})
    return {"violations": viol, "counters": cnt, "max": mx, "nontrivial": len(fwd) >= 8, "sample": sample}


def run_case(case):
    return run_step(case) if case["kind"] == "step" else run_traj(case)
