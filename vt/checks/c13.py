"""C13 - chunked (checkpoint-restart) integration equals one-shot integration, bit for bit.

Monitor: the one-shot run is logged by SolverProbe (the float-recurrence grid is read from the log, not recomputed);
the chunked run restarts from the returned state (and extra state) at grid points; torch.equal on everything.
"""
import itertools
import random

import torch

from .. import probes, zoo

ID = "C13"
LEVEL = "exploration"
RULE = ("case = (solver x noise cell, dt, grid length, cut set); every single cut position plus random multi-cuts "
        "(thorough: all 2^(n-1) cut sets of a 9-step grid for one cell per solver); non-trivial = >= 2 chunks and "
        ">= 4 steps; distinct = distinct (cell, cut set) keys")
ASSUMPTIONS = ["restart points are the grid times the one-shot run actually visited (read from the step log)",
               "the chunked run uses ONE Brownian object for all chunks; the one-shot run an equal-entropy twin"]
REQUIRED_COUNTERS = ["chunked_runs", "extra_state_threaded", "cuts", "clipped_last_step", "far_from_zero_time_axis",
                     "float32_brownian_float64_state", "via_sdeint_adjoint"]


def cases(tier, seed):
    out = []
    reps = 1 if tier == "quick" else 24
    for ci, cell in enumerate(zoo.matrix()):
        for r in range(reps):
            sfx = "" if r == 0 else f"-{r}"
            out.append({"key": f"{zoo.cell_name(cell)}-single{sfx}", "cell": cell, "mode": "single",
                        "rseed": hash((seed, ci, 1, r)) % (2 ** 31) if r else hash((seed, ci, 1)) % (2 ** 31), "cost": 3})
            out.append({"key": f"{zoo.cell_name(cell)}-multi{sfx}", "cell": cell, "mode": "multi",
                        "rseed": hash((seed, ci, 2, r)) % (2 ** 31) if r else hash((seed, ci, 2)) % (2 ** 31), "cost": 4})
        if tier == "thorough" and cell["noise_type"] in ("diagonal", "general"):
            out.append({"key": f"{zoo.cell_name(cell)}-all", "cell": cell, "mode": "all",
                        "rseed": hash((seed, ci, 3)) % (2 ** 31), "cost": 60})
    return out


def run_case(case):
    import torchsde
    cell = case["cell"]
    rng = random.Random(case["rseed"])
    viol, cnt = [], {}
    d, m, B = 3, 2, 2
    sde = zoo.cell_sde(cell, d=d, m=m, seed=rng.randrange(10 ** 6), gscale=0.6)
    n = 9 if case["mode"] == "all" else 12
    dt = rng.choice([0.1, 0.05, 0.125, 0.03, 2.0 ** -10])
    # (also time axes far from zero relative to the step: |t|/dt > 1e6)
    t0 = rng.choice([0.0, -0.7, 1.3, 1500.0, -3000.0])
    # the last step is clipped (span not a multiple of dt) in every single-cut case - one of the cuts is then the last
    # grid point, so that the final chunk consists of the short step only - and in some of the others
    clip = [0.97, 0.94, 0.55] if case["mode"] == "single" else [1.0, 1.0, 0.97]
    T = dt * n * rng.choice(clip)
    cnt["clipped_last_step"] = int(T != dt * n)
    cnt["far_from_zero_time_axis"] = int(abs(t0) / dt > 1e6)
    ts = torch.tensor([t0, t0 + T])
    entropy = rng.randrange(1, 10 ** 9)
    y0 = torch.randn(B, d, generator=torch.Generator().manual_seed(case["rseed"]))
    levy = zoo.levy_for(cell["method"])

    # mixed precision that the library accepts (element-wise diffusion: float64 state and parameters driven by a float32
    # Brownian motion; the products promote to float64): the carried state must not lose precision at a restart
    bm_f32 = cell["noise_type"] == "diagonal" and rng.random() < 0.35
    cnt["float32_brownian_float64_state"] = int(bm_f32)

    def new_bm():
        return torchsde.BrownianInterval(t0=float(ts[0]), t1=float(ts[-1]), size=(B, sde.m), entropy=entropy,
                                         levy_area_approximation=levy, cache_size=rng.choice([1, 45, None]),
                                         dtype=torch.float32 if bm_f32 else torch.float64)

    # a share of the cases runs every call (one-shot and chunks) through the forward pass of sdeint_adjoint
    akw = dict(adjoint=True) if rng.random() < 0.3 else {}
    cnt["via_sdeint_adjoint"] = int(bool(akw))
    det = (lambda x: x.detach()) if akw else (lambda x: x)
    pr = probes.SolverProbe()
    with pr.installed():
        ys_ref, extra_ref = zoo.solve(cell, sde, y0, ts, dt, bm=new_bm(), extra=True, **akw)
        ys_ref, extra_ref = det(ys_ref), tuple(det(e) for e in extra_ref)
    logged = [pr.steps[0]["t0_raw"]] + [s["t1_raw"] for s in pr.steps]
    # Restart points: the step grid of the property's statement, ts[0] + k dt, built by the same float recurrence the
    # step loop uses (t <- t + dt in ts's dtype) and cross-checked against the grid the one-shot run was SEEN to take.
    # On a healthy tree the two coincide (C12 demands it); if they do not, the restart points are still the nominal
    # ones, so a solver whose one-shot grid deviates from the nominal grid in a way that depends on where a call ends
    # (e.g. merged last steps) is exposed here as chunked != one-shot instead of breaking the harness.
    grid, t = [ts[0]], ts[0]
    while True:
        t = t + dt
        if not bool(ts[-1] - t >= 1e-6 * dt):
            break
        grid.append(t)
    grid.append(ts[-1])
    nsteps = len(grid) - 1
    if len(logged) != len(grid) or any(float(a) != float(b) for a, b in zip(logged, grid)):
        cnt["one_shot_grid_differs_from_nominal_grid"] = 1
    interior = list(range(1, nsteps))
    if case["mode"] == "single":
        cutsets = [(i,) for i in interior]
    elif case["mode"] == "multi":
        cutsets = [tuple(sorted(rng.sample(interior, rng.randint(2, min(6, len(interior)))))) for _ in range(20)]
        cutsets.append(tuple(interior))
    else:
        cutsets = [c for r in range(1, len(interior) + 1) for c in itertools.combinations(interior, r)]
    ctx0 = f"cell={zoo.cell_name(cell)} dt={dt} t0={t0} T={T} steps={nsteps} float32_bm={bm_f32}"
    for cuts in cutsets:
        bm = new_bm()
        # one options dict OBJECT for all chunk calls of a run (what a user's loop does); it must come back unchanged
        okw = {}
        if cell.get("options"):
            shared_options = dict(cell["options"])
            okw = {"options_obj": shared_options}
        bounds = [0] + list(cuts) + [nsteps]
        y, extra = y0, None
        for a, b in zip(bounds[:-1], bounds[1:]):
            tsc = torch.stack([torch.as_tensor(grid[a], dtype=ts.dtype), torch.as_tensor(grid[b], dtype=ts.dtype)])
            ys, extra = zoo.solve(cell, sde, y, tsc, dt, bm=bm, extra=True, extra_solver_state=extra, **akw, **okw)
            if okw and shared_options != dict(cell["options"]):
                viol.append({"mechanism": "caller_options_dict_modified",
                             "detail": f"options {cell['options']} -> {shared_options} {ctx0}"})
                break
            ys, extra = det(ys), tuple(det(e) for e in extra)
            y = ys[-1]
        cnt["chunked_runs"] = cnt.get("chunked_runs", 0) + 1
        cnt["cuts"] = cnt.get("cuts", 0) + len(cuts)
        if len(extra) > 0:
            cnt["extra_state_threaded"] = cnt.get("extra_state_threaded", 0) + 1
        if not torch.equal(y, ys_ref[-1]):
            viol.append({"mechanism": "chunked_state_differs",
                         "detail": f"cuts={cuts} max diff {float((y - ys_ref[-1]).abs().max()):.3e} {ctx0}"})
            break
        if len(extra) != len(extra_ref) or any(not torch.equal(a, b) for a, b in zip(extra, extra_ref)):
            viol.append({"mechanism": "chunked_extra_state_differs", "detail": f"cuts={cuts} {ctx0}"})
            break
    return {"violations": viol, "counters": cnt, "max": {}, "nontrivial": nsteps >= 4 and len(cutsets) >= 2,
            "sample": {"steps": nsteps, "dt": dt, "cutsets": len(cutsets), "example_cuts": list(cutsets[-1])}}
