"""C06 - seeded reproducibility; query-order independence in dyadic-tree mode.

(a) two objects, same entropy/options, same query sequence -> bit-identical (all modes);
(b) halfway_tree=True / BrownianTree: two objects driven through DIFFERENT histories (different query sets,
    not permutations), then the same probes -> bit-identical W, U, A;
(c) different entropies -> different paths.
"""
import random

import torch

from .. import bmgen, env, probes

ID = "C06"
LEVEL = "exploration"
RULE = ("case = (mode a|b|c, configuration, two history seeds); non-trivial = >= 10 probe queries compared of which "
        ">= 1 was answered from >= 2 tree pieces (a, b) / >= 5 probes differ (c); distinct = distinct case keys")
ASSUMPTIONS = ["dyadic mode: probes lie on the tolerance grid (times are quantised to tol by design)"]
REQUIRED_COUNTERS = ["b_nodes_below_float32_time_resolution", "a_probes", "b_probes", "b_multi_piece", "c_probes", "b_with_A", "b_tree_wrapper",
                     "b_histories_differ", "point_probes", "twin_under_default_float32", "b_offgrid_probes",
                     "b_near_duplicate_queries"]
CASE_TIMEOUT = 900


def cases(tier, seed):
    na, nb, nc = (110, 150, 40) if tier == "quick" else (3000, 5000, 800)
    out = []
    for mode, n in (("a", na), ("b", nb), ("c", nc)):
        for i in range(n):
            crng = random.Random(f"C06-{seed}-{mode}{i}")
            if mode == "b":
                wr = "tree" if crng.random() < 0.3 else "interval"
                cfg = bmgen.random_config(crng, wrappers=(wr,), allow_f32=(crng.random() < 0.3))
                if wr == "interval":
                    cfg.update(halfway=True, tol=crng.choice([1e-2, 1e-3, 1e-5, 1e-6]), dt=None)
                    cfg.pop("dt_mode", None)
                    # dyadic nodes far below the resolution of single-precision time stamps: a time axis far from zero
                    # relative to the tolerance, or a very fine tolerance (plain W: no supplied end values to rescale)
                    r_ = crng.random()
                    if r_ < 0.2:
                        cfg.update(t0=1000.0, t1=1001.0, tol=1e-6, supply="none")
                    elif r_ < 0.35:
                        cfg.update(tol=crng.choice([1e-8, 1e-9]))
            else:
                wr = crng.choice(["interval", "interval", "interval", "tree", "reverse", "path"])
                cfg = bmgen.random_config(crng, wrappers=(wr,))
            out.append({"key": f"{mode}{i}", "mode": mode, "cfg": cfg, "h1": crng.randrange(10 ** 9),
                        "h2": crng.randrange(10 ** 9), "p": crng.randrange(10 ** 9)})
    return out


def _tup(out):
    return (out,) if torch.is_tensor(out) else tuple(out)


def _probes(cfg, rng, n=14):
    rd = bmgen.grid_round(cfg)
    out = []
    for _ in range(n):
        a, b = sorted([rd(rng.uniform(cfg["t0"], cfg["t1"])), rd(rng.uniform(cfg["t0"], cfg["t1"]))])
        out.append((a, b))
    out.append((cfg["t0"], cfg["t1"]))
    return out


def run_case(case):
    cfg, mode = case["cfg"], case["mode"]
    viol, cnt = [], {}
    tp = probes.TreeProbe()
    fl = bmgen.flags_for(cfg)
    with tp.installed():
        r1, r2 = random.Random(case["h1"]), random.Random(case["h1"] if mode in ("a", "c") else case["h2"])
        k1, q1, s1 = bmgen.history(cfg, r1)
        k2, q2, s2 = bmgen.history(cfg, r2)
        cfg2 = dict(cfg)
        if mode == "c":
            cfg2["entropy"] = cfg["entropy"] + 1 + (case["p"] % 1000)
            if cfg.get("supply") in ("W", "WH"):
                cfg2["supply"] = cfg["supply"] = "none"
        if cfg["wrapper"] == "path":
            # BrownianPath takes no entropy: numpy's global RNG decides it
            import numpy as np
            np.random.seed(cfg["entropy"] % (2 ** 31))
        bm1, base1, meta1 = bmgen.build(cfg, step_hint=s1)
        if cfg["wrapper"] == "path":
            import numpy as np
            np.random.seed(cfg2["entropy"] % (2 ** 31))
        # (a third of the twins lives under PyTorch's default dtype float32 while its sibling lives under float64: the
        # objects carry an explicit dtype, so the process-wide default is not an "option" of the object)
        f32_twin = mode in ("a", "b") and random.Random(case["p"] + 11).random() < 0.33 and cfg["wrapper"] != "path"
        cnt["twin_under_default_float32"] = int(f32_twin)
        with env.default_dtype(torch.float32 if f32_twin else torch.float64):
            bm2, base2, meta2 = bmgen.build(cfg2, step_hint=s1 if mode != "b" else s2)
        points_ok = cfg["wrapper"] in ("interval", "path", "tree")
        for bmx, qx, rx in ((bm1, q1, r1), (bm2, q2, r2)):
            with env.default_dtype(torch.float32 if (f32_twin and bmx is bm2) else torch.float64):
                for (a, b) in qx:
                    bmx(*bmgen.to_frame(cfg, a, b), **fl)
                    if points_ok and rx.random() < 0.05:
                        # point evaluations are part of a history as well (for twins with the same history seed both
                        # objects see the same ones; in dyadic mode they must not matter)
                        bmx(bmgen.pick_time(cfg, rx, 0.6))
                if points_ok:
                    bmx(bmgen.pick_time(cfg, rx, 1.0))
        if mode == "b" and (q1 != q2):
            cnt["b_histories_differ"] = 1
        if mode == "b" and cfg.get("tol", 0) > 0 and 1.2e-7 * max(abs(cfg["t0"]), abs(cfg["t1"])) >= 3 * cfg["tol"]:
            cnt["b_nodes_below_float32_time_resolution"] = 1
        pr = _probes(cfg, random.Random(case["p"]))
        if mode == "b" and cfg.get("tol", 0) > 0:
            # dyadic mode, probes OFF the tolerance grid: the value may depend on the entropy, the options and the query
            # itself - not on earlier queries, in particular not on earlier queries that coincide with the probe after
            # rounding to the tolerance (the second twin is asked such near-duplicates first)
            prng = random.Random(case["p"] + 5)
            rd, tol = bmgen.grid_round(cfg), cfg["tol"]
            for _ in range(6):
                a, b = sorted([prng.uniform(cfg["t0"], cfg["t1"]), prng.uniform(cfg["t0"], cfg["t1"])])
                if b - a < 5 * tol:
                    continue
                a2, b2 = a + prng.uniform(-0.4, 0.4) * tol, b + prng.uniform(-0.4, 0.4) * tol
                if rd(a2) == rd(a) and rd(b2) == rd(b) and cfg["t0"] <= a2 < b2 <= cfg["t1"]:
                    with env.default_dtype(torch.float32 if f32_twin else torch.float64):
                        bm2(*bmgen.to_frame(cfg, a2, b2), **fl)
                    cnt["b_near_duplicate_queries"] = cnt.get("b_near_duplicate_queries", 0) + 1
                pr.append((a, b))
                cnt["b_offgrid_probes"] = cnt.get("b_offgrid_probes", 0) + 1
        ndiff = 0
        for (a, b) in pr:
            o1 = _tup(bm1(*bmgen.to_frame(cfg, a, b), **fl))
            p1 = len(tp.last_pieces) if a < b and tp.last_pieces is not None else 1
            with env.default_dtype(torch.float32 if f32_twin else torch.float64):
                o2 = _tup(bm2(*bmgen.to_frame(cfg, a, b), **fl))
            cnt[f"{mode}_probes"] = cnt.get(f"{mode}_probes", 0) + 1
            if p1 >= 2:
                cnt[f"{mode}_multi_piece"] = cnt.get(f"{mode}_multi_piece", 0) + 1
            if mode == "b" and fl["return_A"] and len(cfg["shape"]) >= 2:
                cnt["b_with_A"] = cnt.get("b_with_A", 0) + 1
            if mode == "b" and cfg["wrapper"] == "tree":
                cnt["b_tree_wrapper"] = cnt.get("b_tree_wrapper", 0) + 1
            same = all((x is None and y is None) or torch.equal(x, y) for x, y in zip(o1, o2))
            if points_ok and mode in ("a", "b") and cnt[f"{mode}_probes"] % 4 == 0:
                pa, pb = bm1(b), bm2(b)
                cnt["point_probes"] = cnt.get("point_probes", 0) + 1
                if not torch.equal(pa, pb):
                    same = False
            if mode in ("a", "b") and not same:
                names = ["W"] + (["U"] if fl["return_U"] else []) + (["A"] if fl["return_A"] else [])
                bad = [n for n, x, y in zip(names, o1, o2) if x is not None and not torch.equal(x, y)]
                mech = "same_history_differs" if mode == "a" else "history_dependent_value_in_dyadic_mode"
                viol.append({"mechanism": f"{mech}:{'/'.join(bad)}:{cfg['wrapper']}",
                             "detail": f"probe ({a},{b}) pieces={p1} histories {k1}/{len(q1)} vs {k2}/{len(q2)} "
                                       f"cfg={cfg}"})
            if mode == "c" and a < b and not same:
                ndiff += 1
        if mode == "c":
            cnt["c_differing"] = ndiff
            if ndiff == 0:
                viol.append({"mechanism": "different_entropy_same_path", "detail": f"cfg={cfg}"})
    nt = (cnt.get(f"{mode}_probes", 0) >= 10 and
          (cnt.get(f"{mode}_multi_piece", 0) >= 1 if mode != "c" else cnt.get("c_differing", 0) >= 5))
    return {"violations": viol, "counters": cnt, "max": {}, "nontrivial": nt,
            "sample": {"mode": mode, "hist1": [k1, len(q1)], "hist2": [k2, len(q2)], **cnt}}
