"""C11 - the adjoint SDE's vector fields are the exact vector-Jacobian products.

Reference model (independent of the library's algebra): the forward SDE is flattened to a dense system
  y in R^{B d},  f: R^{Bd} -> R^{Bd},  G: R^{Bd} -> R^{Bd x Bm}  (row b only sees noise channels (b, .)),
theta = all adjoint parameters flattened. The augmented backward Stratonovich system in Y = (y, a, a_theta) is
  drift     F_s(Y) = (-f_s, a^T d_y f_s, a^T d_theta f_s),       f_s = f - 1/2 sum_l (d_y G_l) G_l   for Ito, f else
  diffusion G^_l(Y) = (-G_l, a^T d_y G_l, a^T d_theta G_l)
all built with torch.autograd.functional.jacobian. For an Ito forward SDE the adjoint is integrated in Ito form,
obtained by the *generic* correction F = F_s + 1/2 sum_l (d_Y G^_l) G^_l on the dense matrices; the Milstein term
is sum_l v_l (d_Y G^_l) G^_l. AdjointSDE.f / g_prod / f_and_g_prod / g_prod_and_gdg_prod are called directly.
"""
import random

import torch
from torch.autograd.functional import jacobian

from .. import zoo
from torchsde._core import misc
from torchsde._core.adjoint_sde import AdjointSDE
from torchsde._core.base_sde import ForwardSDE

ID = "C11"
LEVEL = "exploration"
RULE = ("case = (sde_type, noise_type, sizes, SDE seed, adjoint-parameter subset); non-trivial = state size >= 2 and "
        "every deciding comparison (drift, diffusion product, f_and_g_prod consistency, graph discipline) ran; "
        "distinct = distinct case keys")
ASSUMPTIONS = ["dense reference built with torch.autograd.functional.jacobian; agreement demanded to 1e-10 relative",
               "differentiability under enable_grad is checked by directional finite differences (eps=1e-6, tol 1e-5)"]
REQUIRED_COUNTERS = ["time_switched_parameter_cases", "evaluations_before_the_checked_one", "drift_checked", "gprod_checked", "milstein_term_checked", "no_grad_checked", "grad_fd_checked",
                     "grad_mode_values_checked",
                     "unused_param_cases", "subset_param_cases"]
THRESHOLDS = {"rel": 1e-10, "fd_rel": 1e-5}


def cases(tier, seed):
    reps = 5 if tier == "quick" else 600
    out = []
    for st in ("ito", "stratonovich"):
        for nt in zoo.NOISE_TYPES:
            for r in range(reps):
                out.append({"key": f"{st[:5]}-{nt}-{r}", "sde_type": st, "noise_type": nt,
                            "rseed": hash((seed, st == "ito", zoo.NOISE_TYPES.index(nt), r)) % (2 ** 31),
                            "cost": 3 if st == "ito" else 1})
    return out


class _Call(torch.nn.Module):
    def __init__(self, base):
        super().__init__()
        self.base = base

    def forward(self, which, t, y):
        if which == "f":
            return self.base.f(t, y)
        g = self.base.g(t, y)
        return torch.diag_embed(g) if self.base.noise_type == "diagonal" else g


def run_case(case):
    st, nt = case["sde_type"], case["noise_type"]
    rng = random.Random(case["rseed"])
    viol, cnt, mx = [], {}, {}
    B, d, m = rng.choice([1, 2]), rng.choice([2, 3]), rng.choice([2, 3])
    sde = zoo.NeuralSDE(d, m, nt, st, seed=rng.randrange(10 ** 6), gscale=0.8)
    # "at every point": the vector fields are functions of the evaluation point alone. In 40 % of the cases which
    # parameters the SDE uses depends on the time (two networks, switched at forward time 1), and the AdjointSDE object
    # is first evaluated on the OTHER side of the switch - nothing it learnt there may carry over
    switched = rng.random() < 0.4
    if switched:
        sde = zoo.TimeSwitched(sde, zoo.NeuralSDE(d, m, nt, st, seed=rng.randrange(10 ** 6), gscale=0.8), 1.0)
        cnt["time_switched_parameter_cases"] = 1
    mm = sde.m
    named = list(sde.named_parameters())
    mode = rng.choice(["all", "all", "subset"])
    if mode == "subset":
        k = rng.randint(1, len(named) - 1)
        named = rng.sample(named, k)
        cnt["subset_param_cases"] = 1
    if any(n == "unused" for n, _ in named):
        cnt["unused_param_cases"] = 1
    names = [n for n, _ in named]
    params = [p for _, p in named]
    gen = torch.Generator().manual_seed(case["rseed"])
    y = torch.randn(B, d, generator=gen)
    a = torch.randn(B, d, generator=gen)
    t = torch.tensor(rng.uniform(-2.0, -0.1))  # adjoint time; forward time is -t
    shapes = [y.size(), a.size()] + [p.size() for p in params]
    junk = [torch.randn(p.shape, generator=gen) for p in params]  # accumulated parameter adjoints: must not matter
    aug = misc.flatten([y, a] + junk).unsqueeze(0)
    adj = AdjointSDE(ForwardSDE(sde), list(params), shapes)
    v = torch.randn(B, mm, generator=gen)
    ny, L = B * d, B * mm
    th0 = torch.cat([p.detach().flatten() for p in params])
    P = th0.numel()
    caller = _Call(sde)

    def unflat(th):
        out, i = {}, 0
        for n, p in zip(names, params):
            out["base." + n] = th[i:i + p.numel()].reshape(p.shape)
            i += p.numel()
        return out

    def f_fn(yf, th):
        return torch.func.functional_call(caller, unflat(th), ("f", -t, yf.reshape(B, d))).reshape(-1)

    def G_fn(yf, th):  # dense (B d, B m): batch row b only sees its own noise channels
        g = torch.func.functional_call(caller, unflat(th), ("g", -t, yf.reshape(B, d)))
        out = torch.zeros(ny, L, dtype=g.dtype)
        for b in range(B):
            out[b * d:(b + 1) * d, b * mm:(b + 1) * mm] = g[b]
        return out

    def f_strat(yf, th):
        if st == "stratonovich":
            return f_fn(yf, th)
        Gm = G_fn(yf, th)
        J = jacobian(lambda r: G_fn(r, th), yf, create_graph=True)  # (ny, L, ny)
        return f_fn(yf, th) - 0.5 * torch.einsum("ilj,jl->i", J, Gm)

    def aug_drift_strat(Y):
        yy, aa = Y[:ny], Y[ny:2 * ny]
        Jy = jacobian(lambda q: f_strat(q, th0), yy, create_graph=True)
        Jt = jacobian(lambda q: f_strat(yy, q), th0, create_graph=True)
        return torch.cat([-f_strat(yy, th0), aa @ Jy, aa @ Jt])

    def aug_diff(Y):  # (2 ny + P, L)
        yy, aa = Y[:ny], Y[ny:2 * ny]
        Gm = G_fn(yy, th0)
        Jy = jacobian(lambda q: G_fn(q, th0), yy, create_graph=True)  # (ny, L, ny)
        Jt = jacobian(lambda q: G_fn(yy, q), th0, create_graph=True)  # (ny, L, P)
        return torch.cat([-Gm, torch.einsum("i,ilj->jl", aa, Jy), torch.einsum("i,ilp->pl", aa, Jt)])

    Y0 = torch.cat([y.reshape(-1), a.reshape(-1), torch.zeros(P)])
    if st == "stratonovich":
        drift_ref = aug_drift_strat(Y0)
        JG = None
    else:
        Gaug = aug_diff(Y0)
        JG = jacobian(aug_diff, Y0)  # (N, L, N)
        drift_ref = aug_drift_strat(Y0) + 0.5 * torch.einsum("ilj,jl->i", JG, Gaug)
    gp_ref = aug_diff(Y0) @ v.reshape(-1)
    ctx = f"sde_type={st} noise={nt} B={B} d={d} m={mm} params={names}"

    def cmp(name, got, want):
        got = got.detach().reshape(-1)
        e = float((got - want).abs().max() / (1 + want.abs().max()))
        mx[name] = max(mx.get(name, 0.0), e)
        if not e <= THRESHOLDS["rel"]:
            # which block is off?
            blocks = {"state": slice(0, ny), "adjoint": slice(ny, 2 * ny), "params": slice(2 * ny, None)}
            badb = [k for k, s in blocks.items() if got[s].numel() and
                    float((got[s] - want[s]).abs().max()) > THRESHOLDS["rel"] * (1 + float(want.abs().max()))]
            viol.append({"mechanism": f"adjoint_{name}_mismatch:{st}:{nt}:{'+'.join(badb)}",
                         "detail": f"rel err {e:.3e} {ctx}"})

    if switched:
        t_other = torch.tensor(-0.5 if float(-t) >= 1.0 else -1.5)
        for ctxm in (torch.no_grad(), torch.enable_grad()):
            with ctxm:
                adj.f(t_other, aug), adj.g_prod(t_other, aug, v), adj.f_and_g_prod(t_other, aug, v)
                if nt == "diagonal":
                    adj.g_prod_and_gdg_prod(t_other, aug, v, v)
        cnt["evaluations_before_the_checked_one"] = 1
    with torch.no_grad():
        f_out = adj.f(t, aug)
        gp_out = adj.g_prod(t, aug, v)
        f2, gp2 = adj.f_and_g_prod(t, aug, v)
    cmp("drift", f_out, drift_ref.detach())
    cnt["drift_checked"] = 1
    cmp("g_prod", gp_out, gp_ref.detach())
    cnt["gprod_checked"] = 1
    cmp("f_and_g_prod_drift", f2, drift_ref.detach())
    cmp("f_and_g_prod_prod", gp2, gp_ref.detach())
    for nm, o in (("f", f_out), ("g_prod", gp_out), ("f_and_g_prod", f2), ("f_and_g_prod", gp2)):
        cnt["no_grad_checked"] = cnt.get("no_grad_checked", 0) + 1
        if o.requires_grad or o.grad_fn is not None:
            viol.append({"mechanism": f"graph_left_under_no_grad:{nm}", "detail": ctx})
    # the same values when autograd is enabled (both modes are used: plain .backward() runs the adjoint solve with
    # autograd off, double-backward with it on)
    with torch.enable_grad():
        f_g = adj.f(t, aug)
        gp_g = adj.g_prod(t, aug, v)
        f2_g, gp2_g = adj.f_and_g_prod(t, aug, v)
    cmp("drift_grad_mode", f_g, drift_ref.detach())
    cmp("g_prod_grad_mode", gp_g, gp_ref.detach())
    cmp("f_and_g_prod_drift_grad_mode", f2_g, drift_ref.detach())
    cmp("f_and_g_prod_prod_grad_mode", gp2_g, gp_ref.detach())
    cnt["grad_mode_values_checked"] = 1
    if tuple(f_out.shape) != (1, 2 * ny + P):
        viol.append({"mechanism": "adjoint_output_shape", "detail": f"{tuple(f_out.shape)} {ctx}"})
    if nt == "diagonal":
        v2 = torch.randn(B, mm, generator=gen)
        with torch.no_grad():
            gp3, gdg = adj.g_prod_and_gdg_prod(t, aug, v, v2)
        if JG is None:
            JG = jacobian(aug_diff, Y0)
        ref = torch.einsum("ilj,jl,l->i", JG, aug_diff(Y0), v2.reshape(-1))
        cmp("milstein_term", gdg, ref.detach())
        cmp("milstein_g_prod", gp3, gp_ref.detach())
        with torch.enable_grad():
            gp3_g, gdg_g = adj.g_prod_and_gdg_prod(t, aug, v, v2)
        cmp("milstein_term_grad_mode", gdg_g, ref.detach())
        cmp("milstein_g_prod_grad_mode", gp3_g, gp_ref.detach())
        cnt["milstein_term_checked"] = 1
        if gdg.requires_grad:
            viol.append({"mechanism": "graph_left_under_no_grad:gdg", "detail": ctx})
    # differentiable when gradients are enabled: directional FD w.r.t. the augmented state
    if st == "stratonovich":  # (double backward is documented for Stratonovich SDEs)
        aug_r = aug.clone().requires_grad_(True)
        wv = torch.randn(f_out.shape, generator=gen)
        dirn = torch.randn(aug.shape, generator=gen)
        with torch.enable_grad():
            out = adj.f(t, aug_r.detach().requires_grad_(True))
        if not out.requires_grad:
            viol.append({"mechanism": "not_differentiable_under_enable_grad:f", "detail": ctx})
        else:
            def val(z):
                with torch.enable_grad():
                    zz = z.detach().requires_grad_(True)
                    o = adj.f(t, zz)
                    s = (o * wv).sum()
                    g_, = torch.autograd.grad(s, zz, allow_unused=True)
                return float(s), g_
            s0, g0 = val(aug)
            sp, _ = val(aug + 1e-6 * dirn)
            sm, _ = val(aug - 1e-6 * dirn)
            fd = (sp - sm) / 2e-6
            an = float((g0 * dirn).sum()) if g0 is not None else 0.0
            rel = abs(an - fd) / max(abs(fd), 1e-3)
            mx["grad_fd_rel"] = rel
            cnt["grad_fd_checked"] = 1
            if not rel <= THRESHOLDS["fd_rel"]:
                viol.append({"mechanism": "adjoint_field_derivative_mismatch",
                             "detail": f"autograd {an:.8g} vs FD {fd:.8g} {ctx}"})
    return {"violations": viol, "counters": cnt, "max": mx, "nontrivial": d >= 2,
            "sample": {"sde_type": st, "noise": nt, "B": B, "d": d, "m": mm, "n_params": P, **mx}}
