"""C01 - solutions converge to the true SDE solution at the advertised strong order.

Monitor: real sdeint runs on ONE BrownianInterval per case (fixed entropy, B paths) for dt = 2^-3 .. 2^-8
(thorough: to 2^-9); the exact solution is evaluated on the very same Brownian object afterwards (C03 makes the
object one path) and a recording proxy checks that the increments the solver consumed tile [t0, T].
The advertised order is read from the LIVE solver object (SolverProbe), not from a table.
Oracle: closed forms (vt/closed_forms.py); for non-commutative general noise the same solver at dt/64 on the same
Brownian object. Verdict: least-squares slope of log RMS error vs log dt >= advertised - margin AND final error
below a bound (catches convergence to a wrong limit). Adaptive: error shrinks as tolerances are tightened.
"""
import math
import random

import torch

from .. import closed_forms as cf
from .. import probes, zoo

ID = "C01"
LEVEL = "exploration"
RULE = ("case = (solver x noise cell, closed-form family or fine-grid reference, t0/T, entropy) or an adaptive "
        "tolerance ladder; non-trivial = >= 5 step sizes measured with RMS error above 1e-11 at the coarsest level; "
        "distinct = distinct case keys")
ASSUMPTIONS = ["B=1024 (quick) / 4096 (thorough) nested paths, 6-7 dyadic step sizes: slope estimate s.d. ~0.03-0.05; "
               "margin 0.25 (quick) / 0.2 (thorough) below the advertised order",
               "closed forms are cross-checked against fine-grid solves by two different solvers (vt/closed_forms.py)",
               "non-commutative general noise: reference = same solver at dt_min/16 on the same Brownian object"]
REQUIRED_COUNTERS = ["fixed_cases", "adaptive_cases", "adaptive_binding_pairs", "adaptive_monotone_pairs", "fine_reference_cases", "levels_measured", "ito_corr_crosscheck",
                     "fixed_cases_with_offgrid_intermediate_outputs", "adaptive_cases_via_sdeint_adjoint",
                     "float32_ladders"]
THRESHOLDS = {"margin_quick": 0.25, "margin_thorough": 0.2}


def cases(tier, seed):
    out = []
    nseeds = 1 if tier == "quick" else 3
    for ci, cell in enumerate(zoo.matrix()):
        fams = [n for n, _ in cf.families_for(cell["noise_type"], cell["sde_type"])]
        for fi, fname in enumerate(fams):
            for r in range(nseeds):
                out.append({"key": f"{zoo.cell_name(cell)}-{fname}-{r}", "kind": "fixed", "cell": cell, "family": fname,
                            "rseed": hash((seed, ci, fi, r)) % (2 ** 31), "tier": tier, "cost": 4})
        if cell["noise_type"] == "general":
            out.append({"key": f"{zoo.cell_name(cell)}-noncomm", "kind": "fine", "cell": cell,
                        "rseed": hash((seed, ci, 77)) % (2 ** 31), "tier": tier, "cost": 10})
        if not (cell["method"] == "euler" and cell["noise_type"] != "additive"):
            # quick: one linear and (where a closed form exists) one family that is non-linear in y; thorough: all
            afams = fams if tier == "thorough" else ([fams[0]] + [f for f in fams if f in ("arctan",)][:1])
            for fname in afams:
                suffix = "" if fname == fams[0] else f"-{fname}"
                out.append({"key": f"{zoo.cell_name(cell)}-adaptive{suffix}", "kind": "adaptive", "cell": cell,
                            "family": fname, "rseed": hash((seed, ci, 99, fams.index(fname))) % (2 ** 31), "tier": tier,
                            "cost": 8})
    return out


def _rms(a, b):
    return float((a - b).pow(2).sum(1).mean().sqrt())


def _slope(dts, errs):
    xs = [math.log(d) for d in dts]
    ys = [math.log(max(e, 1e-300)) for e in errs]
    n = len(xs)
    mx_, my = sum(xs) / n, sum(ys) / n
    return sum((x - mx_) * (y - my) for x, y in zip(xs, ys)) / sum((x - mx_) ** 2 for x in xs)


def _tiles(log, t0, T):
    """the increments the solver consumed tile [t0, T] (contiguous, in order)."""
    cur = t0
    for (a, b, _, _) in log:
        if a != cur or not b > a:
            return False
        cur = b
    return cur == T


def run_fixed(case):
    import torchsde
    cell, tier = case["cell"], case["tier"]
    rng = random.Random(case["rseed"])
    viol, cnt, mx = [], {}, {}
    B = 1024 if tier == "quick" else 4096
    levels = list(range(3, 9)) if tier == "quick" else list(range(3, 10))
    t0 = rng.choice([0.0, 0.0, -1.0, 3.5])
    T = rng.choice([0.5, 1.0])
    entropy = rng.randrange(1, 10 ** 9)
    gen = torch.Generator().manual_seed(case["rseed"])
    if case["kind"] == "fixed":
        fam = dict(cf.families_for(cell["noise_type"], cell["sde_type"], seed=rng.randrange(1000)))[case["family"]]
        if isinstance(fam, cf.AdditiveRN) and t0 < 0:
            t0 = 0.25
        y0 = fam.y0(B, gen)
    else:
        B = B // 4
        fam = zoo.NeuralSDE(2, 2, "general", cell["sde_type"], seed=rng.randrange(10 ** 6), gscale=0.8)
        y0 = torch.randn(B, 2, generator=gen)
        levels = levels[:5]
    levy = zoo.levy_for(cell["method"])
    if getattr(fam, "needs_U", False) and levy == "none":
        levy = "space-time"
    # single precision: the same ladder with float32 state and Brownian motion (closed-form families only; levels up to
    # 2^-7 so that the discretisation error stays far above float32 rounding). Orders must not depend on the dtype.
    f32 = case["kind"] == "fixed" and cell["method"] != "srk" and rng.random() < 0.2
    bm_dtype = torch.float64
    fam_run = fam
    if f32:
        cnt["float32_ladders"] = 1
        fam_run, y0, bm_dtype = cf.Float32View(fam), y0.float(), torch.float32
        levels = [k for k in levels if k <= 7]
    base = torchsde.BrownianInterval(t0=t0, t1=t0 + T, size=(B, fam.m), entropy=entropy, levy_area_approximation=levy,
                                     cache_size=None if rng.random() < 0.5 else 45, dtype=bm_dtype)
    ts = [t0, t0 + T]
    # a share of the ladders also requests outputs at a few intermediate times OFF every step grid of the ladder (they
    # are read by interpolation and are not compared - interpolation is only O(sqrt(dt)) accurate); the final state must
    # converge at the advertised order all the same: what is requested in between must not feed back into the solve
    if rng.random() < 0.3:
        ts = [t0, t0 + 0.13 * T, t0 + 0.41 * T, t0 + 0.77 * T, t0 + T]
        cnt["fixed_cases_with_offgrid_intermediate_outputs"] = 1
    errs, dts, order = [], [], None
    with torch.no_grad():
        sols = []
        for k in levels:
            dt = T * 2.0 ** -k
            rec = probes.RecordingBrownian(base)
            pr = probes.SolverProbe(keep_states=False)
            with pr.installed():
                ys = zoo.solve(cell, fam_run, y0, ts, dt, bm=rec)
            order = float(pr.solvers[0].strong_order)
            tensor_ts = torch.tensor(ts)
            if not _tiles(rec.log, float(tensor_ts[0]), float(tensor_ts[-1])):
                viol.append({"mechanism": "consumed_increments_do_not_tile_interval",
                             "detail": f"{zoo.cell_name(cell)} dt={dt} first queries {rec.log[:3]}"})
            sols.append(ys[-1].double())
            dts.append(dt)
        if case["kind"] == "fixed":
            exact = cf.exact_on_path(fam, base, t0, t0 + T, y0)
        else:
            exact = zoo.solve(cell, fam, y0, ts, dts[-1] / 16, bm=base)[-1]
            cnt["fine_reference_cases"] = 1
    errs = [_rms(s, exact) for s in sols]
    cnt["levels_measured"] = len(errs)
    cnt["fixed_cases"] = 1
    margin = THRESHOLDS["margin_" + tier]
    if f32:
        # float32: only levels whose error is well above single-precision rounding (3e-5 relative to the solution's
        # scale) say anything about the order; fewer than three such levels -> the ladder is not judged
        floor = 3e-5 * (1 + float(exact.abs().max()))
        keep = [i for i, e in enumerate(errs) if e > floor]
        if len(keep) < 3:
            return {"violations": viol, "counters": dict(cnt, float32_ladders_at_rounding_floor=1), "max": mx,
                    "nontrivial": False, "sample": {"cell": zoo.cell_name(cell), "float32": True, "errors": errs}}
        errs, dts, levels = [errs[i] for i in keep], [dts[i] for i in keep], [levels[i] for i in keep]
    slope = _slope(dts, errs)
    name = case.get("family", "noncommutative")
    mx[f"deficit_{zoo.cell_name(cell)}"] = order - slope
    ctx = (f"cell={zoo.cell_name(cell)} family={name} advertised={order} slope={slope:.3f} "
           f"errors={[f'{e:.3e}' for e in errs]} dts=2^-{levels} t0={t0} T={T} B={B} float32={f32}")
    trivial = errs[0] < 1e-11
    if not trivial:
        if not slope >= order - margin:
            viol.append({"mechanism": f"order_below_advertised:{zoo.cell_name(cell)}", "detail": ctx})
        scale = 1 + float(exact.abs().max())
        bound = (0.2 if order < 1 else 0.05) * scale
        if not errs[-1] <= bound:
            viol.append({"mechanism": f"does_not_converge_to_true_solution:{zoo.cell_name(cell)}", "detail": ctx})
    return {"violations": viol, "counters": cnt, "max": mx, "nontrivial": not trivial and len(errs) >= (3 if f32 else 5),
            "sample": {"cell": zoo.cell_name(cell), "family": name, "advertised": order, "slope": round(slope, 3),
                       "errors": [float(f"{e:.3e}") for e in errs]}}


def run_adaptive(case):
    import torchsde
    cell = case["cell"]
    rng = random.Random(case["rseed"])
    viol, cnt, mx = [], {}, {}
    B = 64
    fam = dict(cf.families_for(cell["noise_type"], cell["sde_type"], seed=rng.randrange(1000)))[case["family"]]
    t0, T = (0.25, 1.0)
    gen = torch.Generator().manual_seed(case["rseed"])
    y0 = fam.y0(B, gen)
    levy = zoo.levy_for(cell["method"])
    if getattr(fam, "needs_U", False) and levy == "none":
        levy = "space-time"
    base = torchsde.BrownianInterval(t0=t0, t1=t0 + T, size=(B, fam.m), entropy=rng.randrange(1, 10 ** 9),
                                     levy_area_approximation=levy)
    tols = [1e-1, 1e-2, 1e-3, 1e-4, 1e-5]
    errs, trials = [], []
    # entry point: sdeint, or the forward solve of sdeint_adjoint with (fixed, loose) adjoint tolerances - the user's
    # rtol/atol govern the forward solve there too
    entry_kw = {}
    if rng.random() < 0.35 and isinstance(fam, torch.nn.Module):
        entry_kw = dict(adjoint=True, adjoint_rtol=1e-1, adjoint_atol=1e-1)
        cnt["adaptive_cases_via_sdeint_adjoint"] = 1
    with torch.no_grad():
        for tol in tols:
            pr = probes.SolverProbe(keep_states=False)
            with pr.installed():
                ys = zoo.solve(cell, fam, y0, [t0, t0 + T], 0.25, bm=base, adaptive=True, rtol=tol, atol=tol,
                               dt_min=1e-6, **entry_kw)
            trials.append(len(pr.errors))
            exact = cf.exact_on_path(fam, base, t0, t0 + T, y0)
            errs.append(_rms(ys[-1], exact))
    cnt["adaptive_cases"] = 1
    ctx = (f"cell={zoo.cell_name(cell)} family={case['family']} tols={tols} errors={[f'{e:.3e}' for e in errs]} "
           f"trials={trials} entry={'sdeint_adjoint' if entry_kw else 'sdeint'}")
    # a tolerance is 'binding' once it makes the controller take at least twice as many trials as the loosest one
    binding = [i for i in range(len(tols)) if trials[i] >= 2 * trials[0]]
    if binding:
        i, j = 0, binding[-1]
        cnt["adaptive_binding_pairs"] = 1
        mx["adaptive_err_ratio_tight_over_loose"] = errs[j] / max(errs[i], 1e-300)
        if not errs[j] <= 0.6 * errs[i]:
            viol.append({"mechanism": f"tightening_tolerance_does_not_reduce_error:{zoo.cell_name(cell)}", "detail": ctx})
    # monotonicity is demanded only where the tighter tolerance materially refined the schedule (>= 1.5x the trials):
    # two schedules of 3 and 4 steps are both "as coarse as it gets" and their errors differ by sampling noise only
    # (false alarm found by the thorough tier: 5.0e-2 -> 6.4e-2 with 3 -> 4 trials, then 1.3e-2, 2.1e-3, 5.9e-4)
    if not binding and errs[0] > 1e-8 and not errs[-1] <= 0.6 * errs[0]:
        # tightening rtol = atol from 1e-1 to 1e-5 changed neither the schedule nor the (non-negligible) error: the
        # tolerances the user passed do not govern the solve
        viol.append({"mechanism": f"tightening_tolerance_does_not_reduce_error:{zoo.cell_name(cell)}",
                     "detail": "tolerances have no effect on the schedule: " + ctx})
    for k, (a, b) in enumerate(zip(errs[:-1], errs[1:])):
        if trials[k + 1] < 1.5 * trials[k]:
            continue
        cnt["adaptive_monotone_pairs"] = cnt.get("adaptive_monotone_pairs", 0) + 1
        if not b <= 1.25 * a + 1e-12:
            viol.append({"mechanism": f"error_not_monotone_in_tolerance:{zoo.cell_name(cell)}", "detail": ctx})
            break
    return {"violations": viol, "counters": cnt, "max": mx, "nontrivial": bool(binding),
            "sample": {"cell": zoo.cell_name(cell), "tols": tols, "errors": [float(f"{e:.3e}") for e in errs],
                       "trials": trials}}


def run_case(case):
    if case["kind"] == "adaptive":
        return run_adaptive(case)
    return run_fixed(case)


def finalize(results, counters, maxima, tier):
    w = cf.crosscheck()
    counters["ito_corr_crosscheck"] = 1
    maxima["ito_correction_crosscheck"] = w
    if w > 1e-12:
        return {"inconclusive": [f"closed-form Ito corrections disagree with autograd ({w:.2e})"]}
    return {}
