import torch, torchsde, sys, time, warnings, traceback
torch.set_default_dtype(torch.float64)
def trial(name, fn):
    t=time.time()
    try:
        fn(); print(name, 'OK', round(time.time()-t,2))
    except BaseException as e:
        print(name, 'FAIL', type(e).__name__, str(e)[:150], round(time.time()-t,2))

# 1. long sequential forward then backward, default
def seq(n, **kw):
    def f():
        bm = torchsde.BrownianInterval(0., 1., size=(2,), **kw)
        dt = 1.0/n
        for i in range(n):
            bm(i*dt, min((i+1)*dt,1.0))
        for i in reversed(range(n)):
            bm(i*dt, min((i+1)*dt,1.0))
    return f
for n in (1000, 5000, 20000, 50000):
    trial(f'seq n={n} default', seq(n))
trial('seq n=30000 cache0', seq(30000, cache_size=0))
trial('seq n=30000 cache1', seq(30000, cache_size=1))
trial('seq n=30000 cacheNone', seq(30000, cache_size=None))
trial('seq n=30000 dt hint', seq(30000, dt=1/30000))
trial('seq n=30000 dt hint wrong (big)', seq(30000, dt=0.1))
