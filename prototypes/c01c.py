import sys; sys.path.insert(0,'/tmp/scratch/repo')
import torch, torchsde, math, numpy as np, warnings
warnings.simplefilter('ignore')
torch.set_default_dtype(torch.float64)
class TGBM(torch.nn.Module):   # dy = a y dt + (c0+c1 t) y dW  (ito) ; closed form via W and U
    def __init__(s, st, nt, d=2):
        super().__init__(); s.sde_type=st; s.noise_type=nt; s.a=-0.3; s.c0=torch.linspace(0.3,0.5,d); s.c1=torch.linspace(0.6,-0.4,d)
    def b(s,t): return s.c0+s.c1*t
    def f(s,t,y): return s.a*y if s.sde_type=='ito' else (s.a-0.5*s.b(t)**2)*y
    def g(s,t,y):
        g=s.b(t)*y
        if s.noise_type=='diagonal': return g
        if s.noise_type=='scalar': return g.unsqueeze(-1)
        return torch.diag_embed(g)
    def exact(s,bm,t0,T,y0):
        W,U=bm(t0,T,return_U=True)
        if s.noise_type=='scalar': W=W.expand(-1,y0.size(1)); U=U.expand(-1,y0.size(1))
        h=T-t0
        # int_t0^T b(s) dW = b(T) W - c1 * int_t0^T W(t0,s) ds = b(T) W - c1 U
        I=s.b(torch.tensor(T))*W-s.c1*U
        intb2=( (s.c0+s.c1*T)**3-(s.c0+s.c1*t0)**3 )/(3*s.c1)
        return y0*torch.exp(s.a*h-0.5*intb2+I)
Bsz=1500; t0,T=0.5,1.5
ITO=[('euler',None),('milstein',None),('milstein',dict(grad_free=True)),('srk',None)]
STR=[('euler_heun',None),('heun',None),('midpoint',None),('milstein',None),('milstein',dict(grad_free=True)),('reversible_heun',None),('log_ode',None)]
for st,ms in (('ito',ITO),('stratonovich',STR)):
    for meth,opts in ms:
        for nt in ('diagonal','scalar','general'):
            if nt=='general' and meth in('milstein','srk'): continue
            d=2; mm=1 if nt=='scalar' else d
            sde=TGBM(st,nt,d); y0=torch.full((Bsz,d),0.8)
            bm=torchsde.BrownianInterval(t0,T,size=(Bsz,mm),entropy=7,levy_area_approximation='foster')
            ex=sde.exact(bm,t0,T,y0); errs=[]
            for k in range(3,9):
                with torch.no_grad(): ys=torchsde.sdeint(sde,y0,torch.tensor([t0,T]),bm=bm,method=meth,dt=2.0**-k,options=opts)
                errs.append(((ys[-1]-ex)**2).sum(1).mean().sqrt().item())
            slope=-np.polyfit(range(3,9),np.log2(errs),1)[0]
            print(f'tgbm {st:12s} {nt:8s} {meth:16s} {str(opts and "gf"):5s} errs {errs[0]:.1e}->{errs[-1]:.1e} slope {slope:.2f}')
