import torch, torchsde, numpy as np
torch.set_default_dtype(torch.float64)
for levy in ('davie','foster'):
    for h in (1.0, 0.5):
        bm = torchsde.BrownianInterval(0., h, size=(400000,2), levy_area_approximation=levy, entropy=5)
        W,U,A = bm(0.,h,return_U=True,return_A=True)
        H = U/h - 0.5*W
        b = (A[:,0,1] - (H[:,0]*W[:,1]-W[:,0]*H[:,1])).numpy()
        s = (H**2).sum(1).numpy()
        X = np.stack([np.ones_like(s), s],1)
        coef = np.linalg.lstsq(X, b**2, rcond=None)[0]
        print(levy, 'h',h,'VarA', A[:,0,1].var().item(), 'true h^2/4=',h*h/4, 'Var b', b.var(), 'fit', coef, 'antisym', (A+A.transpose(1,2)).abs().max().item())
        if levy=='davie': print('   expected b var h^2/12 =', h*h/12)
        else: print('   expected c0=h^2/20=',h*h/20,'c1=h/5=',h/5)
