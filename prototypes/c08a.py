import torch, torchsde, itertools, warnings, copy
warnings.simplefilter('ignore')
torch.set_default_dtype(torch.float64)
B,d,m=3,2,2
class SDE(torch.nn.Module):
    def __init__(s, sde_type, noise_type):
        super().__init__(); s.sde_type=sde_type; s.noise_type=noise_type
        s.p=torch.nn.Parameter(torch.tensor(0.3)); s.A=torch.nn.Parameter(0.4*torch.randn(d,d)); s.G=torch.nn.Parameter(0.3*torch.randn(d,m))
    def f(s,t,y): return -s.p*y + torch.tanh(y@s.A)*torch.cos(t)
    def g(s,t,y):
        nt=s.noise_type
        if nt=='diagonal': return 0.3*torch.sin(y)*s.p+0.2+0.1*t
        if nt=='scalar': return (0.3*torch.tanh(y@s.A)+0.2).unsqueeze(-1)
        if nt=='additive': return (s.G*(1+t)).expand(y.size(0),d,m)
        return (torch.tanh(y@s.A).unsqueeze(-1)*s.G+0.1)
combos=[('ito','euler',None,'none'),('ito','milstein',None,'none'),('ito','milstein',dict(grad_free=True),'none'),('ito','srk',None,'space-time'),
 ('stratonovich','euler_heun',None,'none'),('stratonovich','heun',None,'none'),('stratonovich','midpoint',None,'none'),('stratonovich','milstein',None,'none'),('stratonovich','milstein',dict(grad_free=True),'none'),('stratonovich','reversible_heun',None,'none'),('stratonovich','log_ode',None,'foster')]
for (st,meth,opts,levy),nt in itertools.product(combos,['diagonal','scalar','additive','general']):
    if nt=='general' and meth in ('milstein','srk'): continue
    torch.manual_seed(1)
    sde=SDE(st,nt); mm={'diagonal':d,'scalar':1}.get(nt,m)
    ts=torch.tensor([0.,0.13,0.5]); bm=torchsde.BrownianInterval(0.,0.5,size=(B,mm),entropy=3,levy_area_approximation=levy)
    y0=torch.randn(B,d,requires_grad=True); w=torch.randn(3,B,d)
    def loss(sde,y0): return (torchsde.sdeint(sde,y0,ts,bm=bm,method=meth,dt=0.06,options=opts)*w).sum()
    L=loss(sde,y0); params=list(sde.parameters())
    gr=torch.autograd.grad(L,[y0]+params,allow_unused=True)
    gr=[g if g is not None else torch.zeros_like(p) for g,p in zip(gr,[y0]+params)]
    dirs=[torch.randn_like(p) for p in [y0]+params]
    an=sum((g*v).sum() for g,v in zip(gr,dirs)).item()
    eps=1e-6
    def shifted(sign):
        s2=copy.deepcopy(sde)
        with torch.no_grad():
            for p,v in zip(s2.parameters(),dirs[1:]): p.add_(sign*eps*v)
            return loss(s2,(y0+sign*eps*dirs[0]).detach()).item()
    fd=(shifted(1)-shifted(-1))/(2*eps)
    rel=abs(an-fd)/max(abs(fd),1e-12)
    print(st,meth,opts,nt,'rel %.1e'%rel, '' if rel<1e-6 else '<<<<<<')
