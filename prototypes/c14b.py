import sys; sys.path.insert(0,'/tmp/scratch/repo')
import torch, torchsde, warnings, math
from torchsde._core import adaptive_stepping, base_solver
warnings.simplefilter('ignore')
torch.set_default_dtype(torch.float64)
events=[]
orig_ce=adaptive_stepping.compute_error; orig_us=adaptive_stepping.update_step_size
def ce(y11,y12,rtol,atol,eps=1e-7):
    r=orig_ce(y11,y12,rtol,atol,eps)
    # independent recomputation
    tol=(rtol*torch.maximum(y11.abs(),y12.abs())+atol)
    ind=max(math.sqrt((((y11-y12)/tol)**2).mean().item()),eps)
    events.append(('err',r,ind)); return r
def us(**kw):
    r=orig_us(**kw); events.append(('upd',kw['prev_step_size'],r[0])); return r
adaptive_stepping.compute_error=ce; adaptive_stepping.update_step_size=us
class Rec:
    def __init__(s,b): s.b=b
    def __call__(s,ta,tb=None,return_U=False,return_A=False):
        events.append(('q',float(ta),float(tb))); return s.b(ta,tb,return_U=return_U,return_A=return_A)
    shape=property(lambda s:s.b.shape); dtype=property(lambda s:s.b.dtype); device=property(lambda s:s.b.device); levy_area_approximation=property(lambda s:s.b.levy_area_approximation)
class SDE(torch.nn.Module):
    noise_type='diagonal'; sde_type='ito'
    def f(s,t,y): return -30*y+torch.sin(5*t)
    def g(s,t,y): return 0.5*torch.cos(y)+0.7
bm=Rec(torchsde.BrownianInterval(0.,1.,size=(4,3),entropy=3,levy_area_approximation='space-time'))
with torch.no_grad(): ys=torchsde.sdeint(SDE(),torch.ones(4,3),torch.tensor([0.,0.33,1.0]),bm=bm,method='srk',dt=0.1,adaptive=True,rtol=1e-3,atol=1e-3,dt_min=1e-3)
# parse: q q q err upd pattern
i=0; trials=[]
while i<len(events):
    q=events[i:i+3]; e=events[i+3]; u=events[i+4]; i+=5
    trials.append(dict(t0=q[0][1],t1=q[0][2],err=e[1],ind=e[2],prev=u[1],new=u[2]))
viol=0
for k,tr in enumerate(trials):
    nxt=trials[k+1]['t0'] if k+1<len(trials) else 1.0
    accepted = nxt==tr['t1']
    new=max(tr['new'],1e-3)
    expect = tr['err']<=1 or new<=1e-3
    if accepted!=expect: viol+=1
    if abs(tr['err']-tr['ind'])>1e-9*max(1,tr['err']): viol+=1
print('trials',len(trials),'rejected',sum(1 for k,tr in enumerate(trials[:-1]) if trials[k+1]['t0']!=tr['t1']),'viol',viol, 'max err', max(t['err'] for t in trials))
