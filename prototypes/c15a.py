import sys; sys.path.insert(0,'/tmp/scratch/repo')
import torch, torchsde, warnings, random
warnings.simplefilter('ignore')
torch.set_default_dtype(torch.float64)
B,d,m=4,3,2
class SDE(torch.nn.Module):
    sde_type='stratonovich'
    def __init__(s, noise_type):
        super().__init__(); s.noise_type=noise_type
        g=torch.Generator().manual_seed(5); s.A=0.4*torch.randn(d,d,generator=g); s.G=0.3*torch.randn(d,m,generator=g)
    def f(s,t,y): return -0.3*y + torch.tanh(y@s.A)*torch.cos(t)
    def g(s,t,y):
        nt=s.noise_type
        if nt=='diagonal': return 0.3*torch.sin(y)+0.5+0.1*t
        if nt=='scalar': return (0.3*torch.tanh(y@s.A)+0.5+0.2*t).unsqueeze(-1)
        if nt=='additive': return (s.G*(1+t)).expand(y.size(0),d,m)
        return (torch.tanh(y@s.A).unsqueeze(-1)*0.2+s.G)
class Minus(torch.nn.Module):
    def __init__(s,sde): super().__init__(); s.noise_type=sde.noise_type; s.sde_type=sde.sde_type; s.f=lambda t,y:-sde.f(-t,y); s.g=lambda t,y:-sde.g(-t,y)
for nt in ('diagonal','scalar','additive','general'):
  for dt,n in ((2.**-4,8),(2.**-6,64),(2.**-3,160),(0.1,10),(0.05,20)):
    mm={'diagonal':d,'scalar':1}.get(nt,m)
    sde=SDE(nt); T=dt*n
    ts=torch.tensor([k*dt for k in range(n+1)])
    bm=torchsde.BrownianInterval(0.,float(ts[-1]),size=(B,mm),entropy=2)
    y0=torch.randn(B,d,generator=torch.Generator().manual_seed(1))
    with torch.no_grad():
        ys,(f,g,z)=torchsde.sdeint(sde,y0,ts,bm=bm,method='reversible_heun',dt=dt,extra=True)
        back=torchsde.sdeint(Minus(sde),ys[-1],-ts.flip(0),bm=torchsde.ReverseBrownian(bm),method='reversible_heun',dt=dt,extra_solver_state=(-f,-g,z)).flip(0)
    print(nt,dt,n,'max recon err %.2e'%(ys-back).abs().max().item(),'scale %.1f'%ys.abs().max().item())
