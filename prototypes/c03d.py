import sys; sys.path.insert(0,sys.argv[1])
import torch, torchsde, math, numpy as np, warnings
warnings.simplefilter('ignore')
torch.set_default_dtype(torch.float64)
class TGBM(torch.nn.Module):
    noise_type='diagonal'; sde_type='ito'
    def __init__(s,d=2): super().__init__(); s.a=-0.3; s.c0=torch.linspace(0.3,0.5,d); s.c1=torch.linspace(0.6,-0.4,d)
    def b(s,t): return s.c0+s.c1*t
    def f(s,t,y): return s.a*y
    def g(s,t,y): return s.b(t)*y
    def exact(s,W,t0,T,y0,U):
        h=T-t0; I=s.b(torch.tensor(T))*W-s.c1*U
        intb2=((s.c0+s.c1*T)**3-(s.c0+s.c1*t0)**3)/(3*s.c1)
        return y0*torch.exp(s.a*h-0.5*intb2+I)
Bsz=1500; d=2
base=torchsde.BrownianInterval(0.,1.,size=(Bsz,d),entropy=7,levy_area_approximation='space-time')
rb=torchsde.ReverseBrownian(base)   # defined on [-1,0]
t0,T=-1.0,0.0
sde=TGBM(); y0=torch.full((Bsz,d),0.8)
W,U=rb(t0,T,return_U=True)
# exact using the TRUE space-time integral of the reversed path, computed independently from base: U' = h W - U_base
Wb,Ub=base(0.,1.,return_U=True); Utrue=(T-t0)*Wb-Ub
ex=sde.exact(Wb,t0,T,y0,Utrue)
errs=[]
for k in range(3,9):
    with torch.no_grad(): ys=torchsde.sdeint(sde,y0,torch.tensor([t0,T]),bm=rb,method='srk',dt=2.0**-k)
    errs.append(((ys[-1]-ex)**2).sum(1).mean().sqrt().item())
print(sys.argv[1],'SRK driven by ReverseBrownian: errs %.1e->%.1e'%(errs[0],errs[-1]),'slope %.2f'%(-np.polyfit(range(3,9),np.log2(errs),1)[0]), ' U returned == true reversed-path U:', bool((U-Utrue).abs().max()<1e-12))
