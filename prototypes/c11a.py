import torch, torchsde, itertools, warnings, math
from torchsde._core.base_sde import ForwardSDE
from torchsde._core.adjoint_sde import AdjointSDE
from torchsde._core import misc
from torch.autograd.functional import jacobian
warnings.simplefilter('ignore')
torch.set_default_dtype(torch.float64)
B,d,m=2,3,2
class SDE(torch.nn.Module):
    def __init__(s, sde_type, noise_type):
        super().__init__(); s.sde_type=sde_type; s.noise_type=noise_type
        s.p=torch.nn.Parameter(torch.tensor(0.3)); s.A=torch.nn.Parameter(0.4*torch.randn(d,d)); s.G=torch.nn.Parameter(0.3*torch.randn(d,m)); s.unused=torch.nn.Parameter(torch.randn(2))
    def f(s,t,y): return -s.p*y + torch.tanh(y@s.A)*torch.cos(t)
    def g(s,t,y):
        nt=s.noise_type
        if nt=='diagonal': return 0.3*torch.sin(y*s.p)*torch.diag(s.A)+0.2+0.1*t
        if nt=='scalar': return (0.3*torch.tanh(y@s.A)+0.2*t).unsqueeze(-1)
        if nt=='additive': return (s.G*(1+t)).expand(y.size(0),d,m)
        return (torch.tanh(y@s.A).unsqueeze(-1)*s.G+0.1*t)
def gmat(sde,t,y):  # (B,d,mm) dense
    g=sde.g(t,y)
    return torch.diag_embed(g) if sde.noise_type=='diagonal' else g
for st,nt in itertools.product(['ito','stratonovich'],['diagonal','scalar','additive','general']):
    torch.manual_seed(2)
    sde=SDE(st,nt); params=[p for p in sde.parameters()]
    mm={'diagonal':d,'scalar':1}.get(nt,m)
    y=torch.randn(B,d); a=torch.randn(B,d); t=torch.tensor(-0.3)   # adjoint time t => forward time -t
    shapes=[y.size(),a.size()]+[p.size() for p in params]
    aug=misc.flatten([y,a]+[torch.randn_like(p) for p in params]).unsqueeze(0)
    adj=AdjointSDE(ForwardSDE(sde),params,shapes)
    v=torch.randn(B,mm)
    with torch.no_grad():
        f_out=adj.f(t,aug); gp_out=adj.g_prod(t,aug,v); f2,gp2=adj.f_and_g_prod(t,aug,v)
    assert not f_out.requires_grad
    # ---- independent oracle: augmented Stratonovich system Y=(y,a,theta-adjoint); params flattened
    ny=B*d; P=sum(p.numel() for p in params)
    def unflat_params(th): 
        out=[];i=0
        for p in params: out.append(th[i:i+p.numel()].reshape(p.shape)); i+=p.numel()
        return out
    th0=torch.cat([p.detach().flatten() for p in params])
    from torch.func import functional_call
    names=[n for n,_ in sde.named_parameters()]
    def F(yf,th):  # forward drift flattened
        return functional_call(sde,dict(zip(names,unflat_params(th))),(-t,yf.reshape(B,d)),{} ,strict=False) if False else None
    def call(fn,yf,th):
        return functional_call(sde,dict(zip(names,unflat_params(th))),args=(-t,yf.reshape(B,d))) 
    class W(torch.nn.Module): pass
    def fwd_f(yf,th):
        old=[p.data for p in params]
        return torch.func.functional_call(sde,dict(zip(names,unflat_params(th))),(-t,yf.reshape(B,d)),kwargs=None)
    # simpler: temporarily define functions via functional_call on methods
    def f_fn(yf,th): 
        return torch.func.functional_call(_M(sde,'f'),dict(zip(names,unflat_params(th))),(-t,yf.reshape(B,d))).reshape(-1)
    def G_fn(yf,th):
        return torch.func.functional_call(_M(sde,'gm'),dict(zip(names,unflat_params(th))),(-t,yf.reshape(B,d))).reshape(ny,mm) if False else _Gd(yf,th)
    class _M(torch.nn.Module):
        def __init__(s,base,which): super().__init__(); s.base=base; s.which=which
        def forward(s,t,y):
            return s.base.f(t,y) if s.which=='f' else gmat(s.base,t,y)
    def f_fn(yf,th):
        mod=_M(sde,'f'); return torch.func.functional_call(mod,{'base.'+n:v for n,v in zip(names,unflat_params(th))},(-t,yf.reshape(B,d))).reshape(-1)
    def _Gd(yf,th):
        mod=_M(sde,'g'); g=torch.func.functional_call(mod,{'base.'+n:v for n,v in zip(names,unflat_params(th))},(-t,yf.reshape(B,d)))  # (B,d,mm)
        # column l of flattened diffusion acts per-batch with same BM? No: BM is (B,mm): each batch row has own noise. Dense: (B*d, B*mm)
        out=torch.zeros(B*d,B*mm)
        for b in range(B): out[b*d:(b+1)*d, b*mm:(b+1)*mm]=g[b]
        return out
    yf=y.reshape(-1); af=a.reshape(-1)
    def aug_drift_strat(Y, fdrift):   # Y=(y,a,ath) -> (-f, a^T df/dy, a^T df/dth)
        yy,aa=Y[:ny],Y[ny:2*ny]
        Jy=jacobian(lambda q: fdrift(q,th0), yy, create_graph=True); Jt=jacobian(lambda q: fdrift(yy,q), th0, create_graph=True)
        return torch.cat([-fdrift(yy,th0), aa@Jy, aa@Jt])
    def aug_diff(Y):  # (2ny+P, B*mm)
        yy,aa=Y[:ny],Y[ny:2*ny]
        Gm=_Gd(yy,th0)
        Jy=jacobian(lambda q:_Gd(q,th0), yy, create_graph=True)   # (ny,Bmm,ny)
        Jt=jacobian(lambda q:_Gd(yy,q), th0, create_graph=True)   # (ny,Bmm,P)
        return torch.cat([-Gm, torch.einsum('i,ilj->jl',aa,Jy), torch.einsum('i,ilp->pl',aa,Jt)])
    Y0=torch.cat([yf,af,torch.zeros(P)])
    if st=='stratonovich':
        drift=aug_drift_strat(Y0,f_fn)
    else:
        def f_strat(q,th):
            Gm=_Gd(q,th); J=jacobian(lambda r:_Gd(r,th), q, create_graph=True)  # (ny,L,ny)
            return f_fn(q,th)-0.5*torch.einsum('ilj,jl->i',J,Gm)
        ds=aug_drift_strat(Y0,f_strat)
        Gaug=aug_diff(Y0); JG=jacobian(aug_diff,Y0)   # (N,L,N)
        drift=ds+0.5*torch.einsum('ilj,jl->i',JG,Gaug)
    vfl=v.reshape(-1)
    gp_ref=aug_diff(Y0)@vfl
    print(st,nt,'f err %.1e'%(f_out.squeeze(0)-drift).abs().max().item(),'gprod err %.1e'%(gp_out.squeeze(0)-gp_ref).abs().max().item(), 'f_and_g_prod consistent %.1e'%max((f2-f_out).abs().max().item(),(gp2-gp_out).abs().max().item()))
    if nt=='diagonal':
        v2=torch.randn(B,mm)
        with torch.no_grad(): gp3,gdg=adj.g_prod_and_gdg_prod(t,aug,v,v2)
        Gaug=aug_diff(Y0); JG=jacobian(aug_diff,Y0)
        ref=torch.einsum('ilj,jl,l->i',JG,Gaug,v2.reshape(-1))
        print('   gdg err %.1e'%(gdg.squeeze(0)-ref).abs().max().item(), 'gprod %.1e'%(gp3-gp_out).abs().max().item())
