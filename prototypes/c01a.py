import torch, torchsde, math
torch.set_default_dtype(torch.float64)
class Lin(torch.nn.Module):
    noise_type='scalar'
    def __init__(self, sde_type, B, a):
        super().__init__(); self.sde_type=sde_type; self.B=B; self.a=a
    def f(self,t,y):
        if self.sde_type=='ito': return self.a*y
        return self.a*y - 0.5*(y@self.B.T@self.B.T)
    def g(self,t,y): return (y@self.B.T).unsqueeze(-1)
def exact(B,a,T,W,y0):
    # y = expm((aI - B^2/2)T + B W) y0 per batch
    out=[]
    I=torch.eye(2)
    for b in range(W.shape[0]):
        M=(a*I-0.5*B@B)*T + B*W[b,0]
        out.append(torch.linalg.matrix_exp(M)@y0[b])
    return torch.stack(out)
def run(sde_type, method, B, opts=None, levy='none'):
    a=-0.5; T=1.0; Bsz=2000
    y0=torch.ones(Bsz,2)
    errs=[]
    bm=torchsde.BrownianInterval(0.,T,size=(Bsz,1),entropy=7,levy_area_approximation=levy)
    ex=exact(B,a,T,bm(0.,T),y0)
    for k in range(3,9):
        dt=2.0**-k
        with torch.no_grad():
            ys=torchsde.sdeint(Lin(sde_type,B,a),y0,torch.tensor([0.,T]),bm=bm,method=method,dt=dt,options=opts)
        errs.append(((ys[-1]-ex)**2).sum(1).mean().sqrt().item())
    orders=[math.log2(errs[i]/errs[i+1]) for i in range(len(errs)-1)]
    print(sde_type,method,opts,'errs',['%.2e'%e for e in errs],'orders',['%.2f'%o for o in orders])
Bsym=0.5*torch.tensor([[1.,0.3],[0.3,1.]])
Bns=0.5*torch.tensor([[1.,1.],[0.,1.]])
for B,name in ((Bsym,'sym'),(Bns,'nonsym')):
    print('B',name)
    run('ito','milstein',B)
    run('ito','milstein',B,dict(grad_free=True))
    run('stratonovich','milstein',B)
    run('stratonovich','milstein',B,dict(grad_free=True))
    run('ito','srk',B,levy='space-time')
    run('ito','euler',B)
    run('stratonovich','heun',B)
    run('stratonovich','midpoint',B)
    run('stratonovich','euler_heun',B)
    run('stratonovich','reversible_heun',B)
    run('stratonovich','log_ode',B,levy='foster')
