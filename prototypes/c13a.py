import torch, torchsde, itertools, warnings, math
warnings.simplefilter('ignore')
torch.set_default_dtype(torch.float64)
B,d,m=4,3,2
class SDE(torch.nn.Module):
    def __init__(s, sde_type, noise_type):
        super().__init__(); s.sde_type=sde_type; s.noise_type=noise_type
        g=torch.Generator().manual_seed(5)
        s.A=0.4*torch.randn(d,d,generator=g); s.G=0.3*torch.randn(d,m,generator=g)+torch.eye(d,m)
    def f(s,t,y): return -0.3*y + torch.tanh(y@s.A)*torch.cos(t)
    def g(s,t,y):
        nt=s.noise_type
        if nt=='diagonal': return 0.3*torch.sin(y)+0.5+0.1*t
        if nt=='scalar': return (0.3*torch.tanh(y@s.A)+0.5+0.2*t).unsqueeze(-1)
        if nt=='additive': return (s.G*(1+t)).expand(y.size(0),d,m)
        return (torch.tanh(y@s.A).unsqueeze(-1)*0.2+s.G)
combos=[('ito','euler','none',None),('ito','milstein','none',None),('ito','milstein','none',dict(grad_free=True)),('ito','srk','space-time',None),('stratonovich','heun','none',None),('stratonovich','midpoint','none',None),('stratonovich','euler_heun','none',None),('stratonovich','milstein','none',None),('stratonovich','reversible_heun','none',None),('stratonovich','log_ode','foster',None)]
for (st,meth,levy,opts),nt in itertools.product(combos,['diagonal','scalar','additive','general']):
    if nt=='general' and meth in ('milstein','srk'): continue
    mm={'diagonal':d,'scalar':1}.get(nt,m)
    dt=0.05; T=0.5
    # grid via float recurrence
    grid=[torch.tensor(0.)]
    while grid[-1]<T: grid.append(torch.minimum(grid[-1]+dt,torch.tensor(T)))
    y0=torch.randn(B,d,generator=torch.Generator().manual_seed(2))
    mk=lambda: torchsde.BrownianInterval(0.,T,size=(B,mm),entropy=3,levy_area_approximation=levy)
    sde=SDE(st,nt)
    with torch.no_grad():
        full,ex=torchsde.sdeint(sde,y0,torch.stack([grid[0],grid[-1]]),bm=mk(),method=meth,dt=dt,options=opts,extra=True)
        bm=mk(); y=y0; extra=None; cuts=[0,3,4,9,len(grid)-1]
        for a,b in zip(cuts[:-1],cuts[1:]):
            ys,extra=torchsde.sdeint(sde,y,torch.stack([grid[a],grid[b]]),bm=bm,method=meth,dt=dt,options=opts,extra=True,extra_solver_state=extra if extra else None)
            y=ys[-1]
    # batch independence
        yb=y0.clone(); yb[1]+=1.0
        full_b=torchsde.sdeint(sde,yb,torch.stack([grid[0],grid[-1]]),bm=mk(),method=meth,dt=dt,options=opts)
        others=[0,2,3]
    print(st,meth,opts,nt,'chunk diff %.1e'%(y-full[-1]).abs().max().item(), 'extra diff', [float((e1-e2).abs().max()) for e1,e2 in zip(extra,ex)], 'batch crosstalk %.1e'%(full_b[-1][others]-full[-1][others]).abs().max().item())
