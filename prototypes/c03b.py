import torch, torchsde
torch.set_default_dtype(torch.float64)
bm = torchsde.BrownianInterval(0.,1.,size=(2,3),levy_area_approximation='foster',entropy=1)
rb = torchsde.ReverseBrownian(bm)
s,u,t = -0.9,-0.5,-0.2
W,U,A = rb(s,t,return_U=True,return_A=True); W1,U1,A1 = rb(s,u,return_U=True,return_A=True); W2,U2,A2=rb(u,t,return_U=True,return_A=True)
print('W add', (W-W1-W2).abs().max().item())
print('U chen fwd', (U-U1-U2-(t-u)*W1).abs().max().item(), ' mirrored', (U-U1-U2-(u-s)*W2).abs().max().item())
# transformed U' = hW - U
Up=lambda W,U,h: h*W-U
print('U transformed chen', (Up(W,U,t-s)-Up(W1,U1,u-s)-Up(W2,U2,t-u)-(t-u)*W1).abs().max().item())
# A chen: for pieces, query the pieces exactly as stored? here just see deviation forms
cross = 0.5*(W1.unsqueeze(-1)*W2.unsqueeze(-2)-W2.unsqueeze(-1)*W1.unsqueeze(-2))
print('A chen fwd', (A-A1-A2-cross).abs().max().item(), 'mirrored', (A-A1-A2+cross).abs().max().item())
W,U,A = bm(0.2,0.9,return_U=True,return_A=True); W1,U1,A1 = bm(0.2,0.5,return_U=True,return_A=True); W2,U2,A2=bm(0.5,0.9,return_U=True,return_A=True)
cross = 0.5*(W1.unsqueeze(-1)*W2.unsqueeze(-2)-W2.unsqueeze(-1)*W1.unsqueeze(-2))
print('base A chen', (A-A1-A2-cross).abs().max().item())
bm.display_binary_tree()
