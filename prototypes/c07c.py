import torch, torchsde, sys, time, warnings, traceback, resource
torch.set_default_dtype(torch.float64)
def trial(name, fn):
    t=time.time()
    try:
        fn(); print(name, 'OK', round(time.time()-t,2))
    except BaseException as e:
        print(name, 'FAIL', type(e).__name__, str(e)[:150], round(time.time()-t,2))
def seq(n, **kw):
    def f():
        bm = torchsde.BrownianInterval(0., 1., size=(2,), **kw)
        dt = 1.0/n
        for i in range(n):
            bm(i*dt, min((i+1)*dt,1.0))
    return f
trial('cache0 n=99', seq(99, cache_size=0))
trial('cache0 n=150', seq(150, cache_size=0))
trial('cache0 dt hint ctor', lambda: torchsde.BrownianInterval(0.,1.,size=(2,),cache_size=0, dt=0.1))
trial('cache1 n=150', seq(150, cache_size=1))
trial('cache1 n=3000', seq(3000, cache_size=1))
trial('cache2 n=3000', seq(3000, cache_size=2))
trial('cache5 n=6000', seq(6000, cache_size=5))
trial('cache45 n=19000', seq(19000, cache_size=45))
trial('cache45 n=21000', seq(21000, cache_size=45))
# sdeint default bm
class S(torch.nn.Module):
    noise_type='diagonal'; sde_type='ito'
    def f(self,t,y): return -y
    def g(self,t,y): return 0.1*y
def sd(n, **kw):
    def f():
        with torch.no_grad():
            torchsde.sdeint(S(), torch.ones(1,1), torch.tensor([0.,1.]), dt=1.0/n, **kw)
    return f
trial('sdeint euler n=25000 (fails fast?)', sd(25000, method='euler'))
trial('sdeint srk n=25000', sd(25000, method='srk'))
