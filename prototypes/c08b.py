import sys; sys.path.insert(0,'/tmp/scratch/repo')
import torch, torchsde, warnings, copy
from torchsde._core import adaptive_stepping
warnings.simplefilter('ignore')
torch.set_default_dtype(torch.float64)
B,d=3,2
class SDE(torch.nn.Module):
    noise_type='diagonal'
    def __init__(s,st): super().__init__(); s.sde_type=st; s.a=torch.nn.Parameter(torch.tensor(2.0)); s.b=torch.nn.Parameter(torch.tensor(0.5))
    def f(s,t,y): return -s.a*y+torch.sin(3*t)
    def g(s,t,y): return s.b*torch.sin(y)+0.6
orig_ce=adaptive_stepping.compute_error; orig_us=adaptive_stepping.update_step_size
mode={'m':'off','rec':[],'i':0,'grad_on':0}
def ce(*a,**k):
    if torch.is_grad_enabled(): mode['grad_on']+=1
    if mode['m']=='replay':
        r=mode['rec'][mode['i']][0]; return r
    r=orig_ce(*a,**k)
    if mode['m']=='record': mode['rec'].append([r,None])
    return r
def us(**kw):
    if mode['m']=='replay':
        r=mode['rec'][mode['i']][1]; mode['i']+=1; return r
    r=orig_us(**kw)
    if mode['m']=='record': mode['rec'][-1][1]=r
    return r
adaptive_stepping.compute_error=ce; adaptive_stepping.update_step_size=us
for st,meth,levy in (('ito','srk','space-time'),('ito','milstein','none'),('stratonovich','heun','none'),('stratonovich','midpoint','none'),('stratonovich','reversible_heun','none')):
    sde=SDE(st); ts=torch.tensor([0.,0.3,1.0]); w=torch.randn(3,B,d,generator=torch.Generator().manual_seed(0))
    mk=lambda: torchsde.BrownianInterval(0.,1.,size=(B,d),entropy=4,levy_area_approximation=levy)
    y0=torch.ones(B,d,requires_grad=True)
    def loss(sde,y0): return (torchsde.sdeint(sde,y0,ts,bm=mk(),method=meth,dt=0.1,adaptive=True,rtol=1e-3,atol=1e-3,dt_min=1e-4)*w).sum()
    mode.update(m='record',rec=[],i=0)
    L=loss(sde,y0); gr=torch.autograd.grad(L,[y0,sde.a,sde.b])
    rec=mode['rec']; nrej=sum(1 for r in rec if r[0]>1); near=min(abs(r[0]-1) for r in rec)
    dirs=[torch.randn_like(y0),torch.randn(()),torch.randn(())]
    an=sum((g*v).sum() for g,v in zip(gr,dirs)).item()
    eps=1e-6
    def sh(sign):
        s2=copy.deepcopy(sde)
        with torch.no_grad():
            s2.a.add_(sign*eps*dirs[1]); s2.b.add_(sign*eps*dirs[2])
            mode.update(m='replay',i=0)
            return loss(s2,(y0+sign*eps*dirs[0]).detach()).item()
    fd=(sh(1)-sh(-1))/(2*eps)
    mode['m']='off'
    print(st,meth,'trials',len(rec),'rejected',nrej,'nearest to 1: %.2f'%near,'rel err %.1e'%(abs(an-fd)/abs(fd)),'grad_enabled_in_compute_error',mode['grad_on'])
