import sys; sys.path.insert(0, sys.argv[1])
import torch, torchsde, time
torch.set_default_dtype(torch.float64)
class Depth:
    def __init__(s): s.d=0; s.max=0; s.calls=0
    def __call__(s,frame,event,arg):
        if event=='call': s.d+=1; s.calls+=1; s.max=max(s.max,s.d)
        elif event=='return': s.d-=1
for n in (2000,16000):
    bm=torchsde.BrownianInterval(0.,1.,size=(2,),entropy=1)
    p=Depth(); t=time.time(); dt=1.0/n
    sys.setprofile(p)
    try:
        for i in range(n): bm(i*dt,min((i+1)*dt,1.0))
        for i in reversed(range(n)): bm(i*dt,min((i+1)*dt,1.0))
        status='ok'
    except RecursionError: status='RecursionError'
    finally: sys.setprofile(None)
    print(sys.argv[1],'n',n,status,'max depth',p.max,'py calls',p.calls,'%.1fs'%(time.time()-t))
