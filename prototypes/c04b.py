import sys; sys.path.insert(0,'/tmp/scratch/repo')
import torch, torchsde, random, math, numpy as np
from torchsde._brownian import brownian_interval as bi
torch.set_default_dtype(torch.float64)
K=1024
class Labeller:
    def __init__(self): self.map={}
    def __call__(self,size,dtype,device,seed):
        seed=int(seed); assert tuple(size)==(K,)
        if seed not in self.map: self.map[seed]=len(self.map)+2   # 0: supplied W, 1: supplied H
        v=torch.zeros(K,dtype=dtype); v[self.map[seed]]=1.0; return v
def phi(f,i,r):
    if f=='W': return 1.0
    h=i[1]-i[0]; return (i[1]-r)/h-0.5
def cov(f1,i1,f2,i2):
    a=max(i1[0],i2[0]); b=min(i1[1],i2[1])
    if b<=a: return 0.0
    g=lambda r: phi(f1,i1,r)*phi(f2,i2,r)
    return (b-a)/6*(g(a)+4*g((a+b)/2)+g(b))
random.seed(3); worst=0; exact_ok=True
for trial in range(100):
    lab=Labeller(); bi._randn=lab
    t0=random.choice([0.,-1.]); t1=t0+random.choice([1.,2.5])
    giveH=random.random()<0.5
    W0=torch.zeros(K); W0[0]=1.0; H0=torch.zeros(K); H0[1]=1.0
    bm=torchsde.BrownianInterval(t0,t1,levy_area_approximation='space-time',W=W0,H=H0 if giveH else None,cache_size=random.choice([1,45,None]),entropy=trial)
    full=bm(t0,t1,return_U=True)
    exact_ok&=torch.equal(full[0],W0)
    Hfull=full[1]/(t1-t0)-0.5*full[0]
    if giveH: exact_ok&=bool((Hfull-H0).abs().max()<1e-15)
    qs=[]
    for _ in range(8):
        a,b=sorted([random.uniform(t0,t1),random.uniform(t0,t1)]); qs.append((a,b))
    rows=[];labs=[]
    for (a,b) in qs:
        W,U=bm(a,b,return_U=True); H=U/(b-a)-0.5*W
        rows+= [W.numpy(),H.numpy()]; labs+=[('W',(a,b)),('H',(a,b))]
    M=np.stack(rows)
    cond=[('W',(t0,t1))]+([('H',(t0,t1))] if giveH else [])
    nc=len(cond)
    Cxx=np.array([[cov(*x,*y) for y in labs] for x in labs]); Cxc=np.array([[cov(*x,*c) for c in cond] for x in labs]); Ccc=np.array([[cov(*c,*e) for e in cond] for c in cond])
    coef=Cxc@np.linalg.inv(Ccc)            # expected coefficients on supplied values
    condcov=Cxx-coef@Cxc.T
    if giveH:
        got_coef=M[:,:2]; rest=M[:,2:]
    else:
        # H at top generated from a label >=2 with std sqrt(h/12); W supplied label 0
        got_coef=M[:,:1]; rest=M[:,1:]
    err=max(np.abs(got_coef-coef).max(), np.abs(rest@rest.T-condcov).max()); worst=max(worst,err)
print('bridge: worst deviation',worst,'exact return of supplied W/H',exact_ok)
