import torch, torchsde, itertools, warnings, math
warnings.simplefilter('ignore')
torch.set_default_dtype(torch.float64)
B,d,m=3,3,2
class SDE(torch.nn.Module):
    def __init__(s, sde_type, noise_type, as_general=False):
        super().__init__(); s.sde_type=sde_type; s.base=noise_type; s.noise_type='general' if as_general else noise_type
        g=torch.Generator().manual_seed(5)
        s.A=0.4*torch.randn(d,d,generator=g); s.G=0.3*torch.randn(d,m,generator=g)
    def f(s,t,y): return -0.3*y + torch.tanh(y@s.A)*torch.cos(t)
    def h(s,t,y): return -0.1*y
    def g(s,t,y):
        nt=s.base
        if nt=='diagonal':
            g=0.3*torch.sin(y)+0.2+0.1*t
            return torch.diag_embed(g) if s.noise_type=='general' else g
        if nt=='scalar': return (0.3*torch.tanh(y@s.A)+0.2*t).unsqueeze(-1)
        if nt=='additive': return (s.G*(1+t)).expand(y.size(0),d,m)
for st,meths in (('ito',['euler']),('stratonovich',['euler_heun','heun','midpoint','reversible_heun','log_ode'])):
  for meth in meths:
    for nt in ['diagonal','scalar','additive']:
        mm={'diagonal':d,'scalar':1}.get(nt,m)
        levy='foster' if meth=='log_ode' else 'none'
        ts=torch.tensor([0.,0.2,0.5]); y0=torch.ones(B,d)
        outs=[]
        for asg in (False,True):
            bm=torchsde.BrownianInterval(0.,0.5,size=(B,mm),entropy=3,levy_area_approximation=levy)
            with torch.no_grad(): outs.append(torchsde.sdeint(SDE(st,nt,asg),y0,ts,bm=bm,method=meth,dt=0.05))
        print(st,meth,nt,'diff %.2e'%(outs[0]-outs[1]).abs().max().item())
