import torch, torchsde, random, math, numpy as np
from torchsde._brownian import brownian_interval as bi
torch.set_default_dtype(torch.float64)
K = 2048
class Labeller:
    def __init__(self): self.map = {}
    def __call__(self, size, dtype, device, seed):
        seed=int(seed)
        assert tuple(size)==(K,), size
        if seed not in self.map: self.map[seed]=len(self.map)+1  # 0 reserved
        v = torch.zeros(K, dtype=dtype); v[self.map[seed]] = 1.0
        return v
def phiW(a,b): return lambda r: 1.0 if a<=r<=b else 0.0
def cov(f1, i1, f2, i2):
    # f: ('W' or 'H'), i=(a,b); integrate product over intersection with simpson (exact for quadratics)
    a=max(i1[0],i2[0]); b=min(i1[1],i2[1])
    if b<=a: return 0.0
    def phi(f,i,r):
        if f=='W': return 1.0
        h=i[1]-i[0]; return (i[1]-r)/h - 0.5
    g=lambda r: phi(f1,i1,r)*phi(f2,i2,r)
    return (b-a)/6*(g(a)+4*g((a+b)/2)+g(b))
random.seed(1)
worst=0
for trial in range(200):
    lab = Labeller(); bi._randn = lab
    levy = random.choice(['none','space-time'])
    cache = random.choice([1,3,45,None])
    t0=random.choice([0.,-1.]); t1=t0+random.choice([1.,2.5])
    dt = random.choice([None,None,0.2,0.03])
    halfway = random.random()<0.2
    kw = dict(tol=1e-3, halfway_tree=True) if halfway else dict(dt=dt)
    bm = torchsde.BrownianInterval(t0,t1,size=(K,),levy_area_approximation=levy,cache_size=cache,entropy=trial,**kw)
    qs=[]
    for _ in range(random.choice([3,8,20])):
        a,b=sorted([random.uniform(t0,t1),random.uniform(t0,t1)])
        if halfway: a,b=round(a,3),round(b,3)
        if a==b: continue
        qs.append((a,b))
    rows=[];labs=[]
    for (a,b) in qs:
        if levy=='none':
            W=bm(a,b); rows.append(W.numpy()); labs.append(('W',(a,b)))
        else:
            W,U=bm(a,b,return_U=True); H=U/(b-a)-0.5*W
            rows.append(W.numpy()); labs.append(('W',(a,b))); rows.append(H.numpy()); labs.append(('H',(a,b)))
    M=np.stack(rows); C=M@M.T
    Cexp=np.array([[cov(f1,i1,f2,i2) for (f2,i2) in labs] for (f1,i1) in labs])
    err=np.abs(C-Cexp).max(); worst=max(worst,err)
    if err>1e-9: print('trial',trial,levy,cache,halfway,dt,'err',err,'nseeds',len(lab.map))
print('worst',worst)
