import sys; sys.path.insert(0,'/tmp/scratch/repo')
import torch, torchsde, math, numpy as np, warnings
from torch.autograd.functional import jacobian
from torchsde._core import methods
from torchsde._core.base_sde import ForwardSDE
warnings.simplefilter('ignore')
torch.set_default_dtype(torch.float64)
d=2
class S(torch.nn.Module):
    noise_type='scalar'; sde_type='ito'
    def __init__(s): super().__init__(); g=torch.Generator().manual_seed(3); s.A=0.7*torch.randn(d,d,generator=g); s.Bm=0.6*torch.randn(d,d,generator=g)
    def f(s,t,y): return torch.tanh(y@s.A)*torch.cos(t)-0.4*y
    def g(s,t,y): return (torch.sin(y@s.Bm)+0.5+0.3*t).unsqueeze(-1)
class Stub:
    levy_area_approximation='space-time'; shape=(1,1); dtype=torch.float64; device='cpu'
    def __init__(s): s.W=None; s.U=None
    def __call__(s,ta,tb=None,return_U=False,return_A=False):
        return (s.W,s.U) if return_U else s.W
sde=S(); bm=Stub()
def make(meth, sde_type):
    sde.sde_type=sde_type
    cls=methods.select(meth,sde_type)
    return cls(sde=ForwardSDE(sde),bm=bm,dt=0.1,adaptive=False,rtol=0,atol=0,dt_min=0,options={})
# operators for a single state vector y (d,), scalar noise
def fv(t,y): return sde.f(t,y.unsqueeze(0))[0]
def gv(t,y): return sde.g(t,y.unsqueeze(0))[0,:,0]
def L1(phi): return lambda t,y: jacobian(lambda q: phi(t,q), y, create_graph=True)@gv(t,y)
def L0(phi):
    def out(t,y):
        Jy=jacobian(lambda q: phi(t,q), y, create_graph=True)
        Jt=jacobian(lambda s_: phi(s_,y), t, create_graph=True)
        H=jacobian(lambda q: jacobian(lambda r: phi(t,r), q, create_graph=True), y, create_graph=True)  # (d_out,d,d)
        g=gv(t,y)
        return Jt+Jy@fv(t,y)+0.5*torch.einsum('ijk,j,k->i',H,g,g)
    return out
def taylor15(t,y,h,dW,U):
    return (y+fv(t,y)*h+gv(t,y)*dW+L1(gv)(t,y)*0.5*(dW**2-h)+L1(fv)(t,y)*U+L0(gv)(t,y)*(h*dW-U)+L0(fv)(t,y)*0.5*h*h+L1(L1(gv))(t,y)*0.5*(dW**2/3-h)*dW).detach()
t0=torch.tensor(0.3); y0=torch.tensor([0.4,-0.7])
solver=make('srk','ito')
def resid(h,a,b):
    dW=a*math.sqrt(h); Hh=b*math.sqrt(h/12); U=h*(0.5*dW+Hh)
    bm.W=torch.tensor([[dW]]); bm.U=torch.tensor([[U]])
    with torch.no_grad(): y1,_=solver.step(t0,t0+h,y0.unsqueeze(0),())
    return (y1[0]-taylor15(t0,y0,torch.tensor(h),torch.tensor(dW),torch.tensor(U)))
hs=[2.**-k for k in range(3,11)]
for (a,b) in ((1.3,-0.7),(0.4,1.9)):
    r=[resid(h,a,b).abs().max().item() for h in hs]
    print('pathwise resid',['%.1e'%x for x in r],'slopes',['%.2f'%math.log2(r[i]/r[i+1]) for i in range(len(r)-1)])
# expectation via Gauss-Hermite
xs,ws=np.polynomial.hermite_e.hermegauss(10); ws=ws/ws.sum()
Er=[]
for h in hs[:6]:
    acc=torch.zeros(d)
    for a,wa in zip(xs,ws):
        for b,wb in zip(xs,ws): acc+=wa*wb*resid(h,float(a),float(b))
    Er.append(acc.abs().max().item())
print('mean resid',['%.1e'%x for x in Er],'slopes',['%.2f'%math.log2(Er[i]/Er[i+1]) for i in range(len(Er)-1)])
