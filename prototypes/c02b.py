import sys; sys.path.insert(0,'/tmp/scratch/repo')
import torch, torchsde, math, numpy as np, warnings, itertools
from torch.autograd.functional import jacobian
from torchsde._core import methods
from torchsde._core.base_sde import ForwardSDE
warnings.simplefilter('ignore')
torch.set_default_dtype(torch.float64)
d,m=2,2
class S(torch.nn.Module):
    noise_type='general'; sde_type='stratonovich'
    def __init__(s): super().__init__(); g=torch.Generator().manual_seed(3); s.A=0.7*torch.randn(d,d,generator=g); s.Bm=0.6*torch.randn(d,d*m,generator=g)
    def f(s,t,y): return torch.tanh(y@s.A)*torch.cos(t)-0.4*y
    def g(s,t,y): return (torch.sin(y@s.Bm)+0.5+0.3*t).reshape(-1,d,m)
class Stub:
    shape=(1,m); dtype=torch.float64; device='cpu'
    def __init__(s,levy): s.levy_area_approximation=levy
    def __call__(s,ta,tb=None,return_U=False,return_A=False):
        s.calls+=1
        if return_A: return s.W,s.Amat
        return s.W
sde=S()
def fv(t,y): return sde.f(t,y.unsqueeze(0))[0]
def gm(t,y): return sde.g(t,y.unsqueeze(0))[0]   # (d,m)
def strat_taylor1(t,y,h,dW,A):
    G=gm(t,y); J=jacobian(lambda q: gm(t,q), y)  # (d,m,d): dG_{i,l}/dy_j
    # sum_{k,l} (Dg_l g_k)(0.5 dW_k dW_l + A_kl)
    T2=torch.einsum('ilj,jk,kl->i',J,G,0.5*torch.outer(dW,dW)+A)
    return y+fv(t,y)*h+G@dW+T2
t0=torch.tensor(0.3); y0=torch.tensor([0.4,-0.7])
hs=[2.**-k for k in range(3,11)]
xs,ws=np.polynomial.hermite_e.hermegauss(8); ws=ws/ws.sum()
for meth,levy in (('euler_heun','none'),('heun','none'),('midpoint','none'),('reversible_heun','none'),('log_ode','foster')):
    bm=Stub(levy); bm.calls=0
    solver=methods.select(meth,'stratonovich')(sde=ForwardSDE(sde),bm=bm,dt=0.1,adaptive=False,rtol=0,atol=0,dt_min=0,options={})
    def resid(h,a,alpha):
        dW=torch.tensor(a)*math.sqrt(h); A=torch.tensor([[0.,alpha],[-alpha,0.]])*h
        bm.W=dW.unsqueeze(0); bm.Amat=A.unsqueeze(0)
        with torch.no_grad():
            extra=solver.init_extra_solver_state(t0,y0.unsqueeze(0))
            y1,_=solver.step(t0,t0+h,y0.unsqueeze(0),extra)
        Aref=A if meth=='log_ode' else torch.zeros(m,m)
        return y1[0]-strat_taylor1(t0,y0,torch.tensor(h),dW,Aref)
    r=[resid(h,[1.3,-0.7],0.37).abs().max().item() for h in hs]
    sl=-np.polyfit(np.log2(hs),np.log2(r),1)[0]*-1
    Er=[]
    for h in hs[:6]:
        acc=torch.zeros(d)
        for (a1,w1),(a2,w2) in itertools.product(zip(xs,ws),zip(xs,ws)): acc+=w1*w2*resid(h,[float(a1),float(a2)],0.37)
        Er.append(acc.abs().max().item())
    sm=np.polyfit(np.log2(hs[:6]),np.log2(Er),1)[0]
    print(f'{meth:16s} pathwise slope {np.polyfit(np.log2(hs),np.log2(r),1)[0]:.2f}  mean slope {sm:.2f}  (r: {r[0]:.1e}->{r[-1]:.1e}; E: {Er[0]:.1e}->{Er[-1]:.1e}) bm calls {bm.calls}')
