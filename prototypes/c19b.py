import torch, torchsde, warnings
warnings.simplefilter('ignore')
B,d,m=3,2,2
class SDE(torch.nn.Module):
    def __init__(s, sde_type='ito', noise_type='diagonal', has_f=True, has_g=True, gshape=None):
        super().__init__(); s.sde_type=sde_type; s.noise_type=noise_type; s.gshape=gshape
        s.p=torch.nn.Parameter(torch.tensor(0.3))
        if has_f: s.f=lambda t,y: -s.p*y
        if has_g: s.g=s._g
    def _g(s,t,y):
        if s.gshape is not None: return torch.ones(*s.gshape)
        nt=s.noise_type
        if nt=='diagonal': return 0.3*torch.sin(y)+0.2
        if nt=='scalar': return (0.3*torch.tanh(y)+0.2).unsqueeze(-1)
        return torch.ones(y.size(0),d,m)
def t(name, fn, expect=ValueError):
    try: r=fn(); print(f'{name:55s} -> returned {type(r).__name__} (expected {expect.__name__})  <<<<' )
    except Exception as e: print(f'{name:55s} -> {type(e).__name__}: {str(e)[:70]}', '' if isinstance(e,expect) else ' <<<< wrong type')
y0=torch.ones(B,d); ts=torch.tensor([0.,0.5,1.])
for fn_name,fn in (('sdeint',torchsde.sdeint),('sdeint_adjoint',torchsde.sdeint_adjoint)):
    print('==',fn_name)
    t('ts decreasing', lambda: fn(SDE(),y0,torch.tensor([0.,1.,0.5]),dt=0.1))
    t('ts repeated', lambda: fn(SDE(),y0,torch.tensor([0.,0.5,0.5]),dt=0.1))
    t('ts list decreasing', lambda: fn(SDE(),y0,[0.,1.,0.5],dt=0.1))
    t('ts list of strings', lambda: fn(SDE(),y0,['a','b'],dt=0.1))
    t('y0 1-D', lambda: fn(SDE(),torch.ones(d),ts,dt=0.1))
    t('y0 3-D', lambda: fn(SDE(),torch.ones(B,d,1),ts,dt=0.1))
    t('y0 not tensor', lambda: fn(SDE(),[[1.,1.]],ts,dt=0.1))
    t('bm batch mismatch', lambda: fn(SDE(),y0,ts,dt=0.1,bm=torchsde.BrownianInterval(0.,1.,size=(B+1,d))))
    t('bm noise mismatch diag', lambda: fn(SDE(),y0,ts,dt=0.1,bm=torchsde.BrownianInterval(0.,1.,size=(B,d+1))))
    t('bm 1-D shape', lambda: fn(SDE(),y0,ts,dt=0.1,bm=torchsde.BrownianInterval(0.,1.,size=(B,))))
    t('g wrong state size', lambda: fn(SDE(gshape=(B,d+1)),y0,ts,dt=0.1))
    t('g wrong batch', lambda: fn(SDE(gshape=(B+1,d)),y0,ts,dt=0.1))
    t('g 3-D for diagonal', lambda: fn(SDE(gshape=(B,d,m)),y0,ts,dt=0.1))
    t('g 2-D for general', lambda: fn(SDE(noise_type='general',gshape=(B,d)),y0,ts,dt=0.1))
    t('scalar noise m=2', lambda: fn(SDE(noise_type='scalar',gshape=(B,d,2)),y0,ts,dt=0.1))
    t('scalar noise bm m=2', lambda: fn(SDE(noise_type='scalar'),y0,ts,dt=0.1,bm=torchsde.BrownianInterval(0.,1.,size=(B,2))))
    t('missing f', lambda: fn(SDE(has_f=False),y0,ts,dt=0.1))
    t('missing g', lambda: fn(SDE(has_g=False),y0,ts,dt=0.1))
    t('ts requires grad', lambda: fn(SDE(),y0,torch.tensor([0.,1.],requires_grad=True),dt=0.1))
    t('dt requires grad', lambda: fn(SDE(),y0,ts,dt=torch.tensor(0.1,requires_grad=True)))
    t('rtol requires grad', lambda: fn(SDE(),y0,ts,dt=0.1,rtol=torch.tensor(0.1,requires_grad=True)))
    t('bad noise_type', lambda: fn(SDE(noise_type='foo'),y0,ts,dt=0.1))
    t('bad sde_type', lambda: fn(SDE(sde_type='foo'),y0,ts,dt=0.1))
    t('bad method', lambda: fn(SDE(),y0,ts,dt=0.1,method='rk4'))
    t('no noise_type attr', lambda: fn(torch.nn.Linear(1,1),y0,ts,dt=0.1))
    t('logqp no h', lambda: fn(SDE(),y0,ts,dt=0.1,logqp=True), Exception)
