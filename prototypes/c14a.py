import torch, torchsde, itertools, warnings, math, time
warnings.simplefilter('ignore')
B,d,m=4,3,2
class Rec:
    def __init__(s,b): s.b=b; s.log=[]
    def __call__(s,ta,tb=None,return_U=False,return_A=False):
        s.log.append((float(ta),float(tb))); return s.b(ta,tb,return_U=return_U,return_A=return_A)
    shape=property(lambda s:s.b.shape); dtype=property(lambda s:s.b.dtype); device=property(lambda s:s.b.device); levy_area_approximation=property(lambda s:s.b.levy_area_approximation)
class SDE(torch.nn.Module):
    def __init__(s, sde_type, noise_type, stiff):
        super().__init__(); s.sde_type=sde_type; s.noise_type=noise_type; s.k=stiff
    def f(s,t,y): return -s.k*y + torch.sin(5*t)
    def g(s,t,y):
        nt=s.noise_type
        if nt=='diagonal': return 0.5*torch.cos(y)+0.7
        if nt=='additive': return torch.ones(y.size(0),d,m,dtype=y.dtype)*(1+t)
for dtype in (torch.float64, torch.float32):
  for st,meth,levy in (('ito','srk','space-time'),('ito','milstein','none'),('ito','euler','none'),('stratonovich','heun','none'),('stratonovich','reversible_heun','none')):
    for nt in ('diagonal','additive'):
      for stiff,rtol,atol,dt,dt_min in ((1.,1e-3,1e-3,0.1,1e-4),(200.,1e-3,1e-4,0.1,1e-3),(5000.,1e-5,1e-6,0.05,1e-4),(1.,1e-7,1e-8,0.01,1e-5)):
        mm={'diagonal':d}.get(nt,m)
        ts=torch.tensor([0.,0.33,1.0],dtype=dtype)
        bm=Rec(torchsde.BrownianInterval(0.,1.,size=(B,mm),dtype=dtype,entropy=3,levy_area_approximation=levy))
        t=time.time()
        try:
            with torch.no_grad(): ys=torchsde.sdeint(SDE(st,nt,stiff),torch.ones(B,d,dtype=dtype),ts,bm=bm,method=meth,dt=dt,adaptive=True,rtol=rtol,atol=atol,dt_min=dt_min)
            res='finite=%s'%bool(torch.isfinite(ys).all())
        except Exception as e: res=type(e).__name__+str(e)[:60]
        L=bm.log; trials=[L[i:i+3] for i in range(0,len(L),3)]
        ok=all(tr[0][0]==tr[1][0] and tr[1][1]==tr[2][0] and tr[2][1]==tr[0][1] for tr in trials if len(tr)==3)
        # accepted: next trial starts at this end
        acc=[tr for i,tr in enumerate(trials) if (i+1<len(trials) and trials[i+1][0][0]==tr[0][1]) or i+1==len(trials)]
        minh=min(tr[0][1]-tr[0][0] for tr in trials)
        print(str(dtype)[6:],st,meth,nt,'k',stiff,res,'trials',len(trials),'acc',len(acc),'struct',ok,'minh %.2e'%minh,'dtmin',dt_min,'end',acc[-1][0][1],'%.1fs'%(time.time()-t))
