import torch, torchsde, itertools, warnings
warnings.simplefilter('ignore')
torch.set_default_dtype(torch.float64)
B,d,m=3,2,2
class SDE(torch.nn.Module):
    def __init__(s, sde_type, noise_type):
        super().__init__(); s.sde_type=sde_type; s.noise_type=noise_type
        s.p=torch.nn.Parameter(torch.tensor(0.3)); s.A=torch.nn.Parameter(0.2*torch.randn(d,d)); s.G=torch.nn.Parameter(0.2*torch.randn(d,m))
    def f(s,t,y): return -s.p*y + torch.tanh(y@s.A)
    def g(s,t,y):
        nt=s.noise_type
        if nt=='diagonal': return 0.3*torch.sin(y)*s.p+0.2
        if nt=='scalar': return (0.3*torch.tanh(y@s.A)+0.2).unsqueeze(-1)
        if nt=='additive': return (s.G*(1+t)).expand(y.size(0),d,m)
        return (torch.tanh(y).unsqueeze(-1)*s.G+0.1)
def grads(fn, sde, y0):
    ys=fn(sde,y0); w=torch.linspace(1,2,ys.numel()).reshape(ys.shape)
    (ys*w).sum().backward()
    return torch.cat([y0.grad.flatten()]+[(p.grad if p.grad is not None else torch.zeros_like(p)).flatten() for p in sde.parameters()])
for nt in ['diagonal','scalar','additive','general']:
  for dt,ts in ((2.**-4,[0.,0.25,0.5]),(0.05,[0.,0.25,0.5]),(2.**-4,[0.,0.5]),(0.05,[0.,0.5]),(0.1,[0.,0.3,0.7,1.0])):
    torch.manual_seed(0)
    mm={'diagonal':d,'scalar':1}.get(nt,m)
    ts_=torch.tensor(ts)
    bm=torchsde.BrownianInterval(ts[0],ts[-1],size=(B,mm),entropy=1)
    s1=SDE('stratonovich',nt); s2=SDE('stratonovich',nt); s2.load_state_dict(s1.state_dict())
    g1=grads(lambda s,y: torchsde.sdeint(s,y,ts_,bm=bm,method='reversible_heun',dt=dt), s1, torch.ones(B,d,requires_grad=True))
    g2=grads(lambda s,y: torchsde.sdeint_adjoint(s,y,ts_,bm=bm,method='reversible_heun',adjoint_method='adjoint_reversible_heun',dt=dt), s2, torch.ones(B,d,requires_grad=True))
    print(nt,dt,ts,'rel err %.2e'%((g1-g2).norm()/g1.norm()).item(), 'max abs %.2e'%(g1-g2).abs().max().item())
