import sys; sys.path.insert(0,'/tmp/scratch/repo')
import torch, torchsde, itertools, warnings
warnings.simplefilter('ignore')
torch.set_default_dtype(torch.float64)
B,d,m=3,3,2
class Base(torch.nn.Module):
    def __init__(s, sde_type, noise_type):
        super().__init__(); s.sde_type=sde_type; s.noise_type=noise_type
        g=torch.Generator().manual_seed(5); s.A=0.4*torch.randn(d,d,generator=g); s.G=0.3*torch.randn(d,m,generator=g)+torch.eye(d,m)
    def _f(s,t,y): return -0.3*y + torch.tanh(y@s.A)*torch.cos(t)
    def _g(s,t,y):
        nt=s.noise_type
        if nt=='diagonal': return 0.3*torch.sin(y)+0.5+0.1*t
        if nt=='scalar': return (0.3*torch.tanh(y@s.A)+0.5+0.2*t).unsqueeze(-1)
        if nt=='additive': return (s.G*(1+t)).expand(y.size(0),d,m)
        return (torch.tanh(y@s.A).unsqueeze(-1)*0.2+s.G)
    def _gp(s,t,y,v):
        g=s._g(t,y)
        return g*v if s.noise_type=='diagonal' else torch.bmm(g,v.unsqueeze(-1)).squeeze(-1)
def variant(kind, st, nt):
    b=Base(st,nt)
    if kind=='f,g': b.f=b._f; b.g=b._g
    if kind=='f_and_g': b.f_and_g=lambda t,y:(b._f(t,y),b._g(t,y))
    if kind=='f,g_prod': b.f=b._f; b.g_prod=b._gp
    if kind=='f_and_g_prod': b.f_and_g_prod=lambda t,y,v:(b._f(t,y),b._gp(t,y,v))
    if kind=='f_and_g+g_prod': b.f_and_g=lambda t,y:(b._f(t,y),b._g(t,y)); b.g_prod=b._gp
    if kind=='all': b.f=b._f; b.g=b._g; b.f_and_g=lambda t,y:(b._f(t,y),b._g(t,y)); b.g_prod=b._gp; b.f_and_g_prod=lambda t,y,v:(b._f(t,y),b._gp(t,y,v))
    if kind=='renamed': b.drift=b._f; b.diffusion=b._g
    return b
kinds=['f,g','f_and_g','f,g_prod','f_and_g_prod','f_and_g+g_prod','all','renamed']
combos=[('ito','euler','none',None),('ito','milstein','none',None),('ito','milstein','none',dict(grad_free=True)),('ito','srk','space-time',None),('stratonovich','heun','none',None),('stratonovich','midpoint','none',None),('stratonovich','euler_heun','none',None),('stratonovich','milstein','none',None),('stratonovich','reversible_heun','none',None),('stratonovich','log_ode','foster',None)]
for (st,meth,levy,opts),nt in itertools.product(combos,['diagonal','scalar','additive','general']):
    if nt=='general' and meth in ('milstein','srk'): continue
    mm={'diagonal':d,'scalar':1}.get(nt,m)
    res={}
    ref=None
    for k in kinds:
        bm=torchsde.BrownianInterval(0.,0.5,size=(B,mm),entropy=3,levy_area_approximation=levy)
        try:
            with torch.no_grad():
                ys=torchsde.sdeint(variant(k,st,nt),torch.ones(B,d),torch.tensor([0.,0.2,0.5]),bm=bm,method=meth,dt=0.05,options=opts,names={'drift':'drift','diffusion':'diffusion'} if k=='renamed' else None)
            if ref is None: ref=ys
            res[k]='==' if torch.equal(ys,ref) else 'DIFF %.1e'%(ys-ref).abs().max().item()
        except Exception as e:
            res[k]=type(e).__name__[:12]+':'+str(e)[:30]
    print(st,meth,opts and 'gf',nt,res)
