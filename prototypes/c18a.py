import torch, torchsde, itertools, warnings, math
warnings.simplefilter('ignore')
torch.set_default_dtype(torch.float64)
B,d,m=3,3,2
class SDE(torch.nn.Module):
    def __init__(s, sde_type, noise_type, c):
        super().__init__(); s.sde_type=sde_type; s.noise_type=noise_type; s.c=c
        g=torch.Generator().manual_seed(5)
        s.A=0.4*torch.randn(d,d,generator=g); s.G=0.3*torch.randn(d,m,generator=g)+torch.eye(d,m)
    def h(s,t,y): return -0.3*y + torch.tanh(y@s.A)*torch.cos(t)
    def f(s,t,y):
        g=s.g(t,y)
        gc = g*s.c if s.noise_type=='diagonal' else (g@s.c)
        return s.h(t,y)+gc
    def g(s,t,y):
        nt=s.noise_type
        if nt=='diagonal': return 0.3*torch.sin(y)+0.5+0.1*t
        if nt=='scalar': return (0.3*torch.tanh(y@s.A)+0.5+0.2*t).unsqueeze(-1)
        if nt=='additive': return (s.G*(1+t)).expand(y.size(0),d,m)
        return (torch.tanh(y@s.A).unsqueeze(-1)*0.2+s.G)
combos=[('ito','euler','none'),('ito','milstein','none'),('ito','srk','space-time'),('stratonovich','heun','none'),('stratonovich','midpoint','none'),('stratonovich','euler_heun','none'),('stratonovich','milstein','none'),('stratonovich','reversible_heun','none'),('stratonovich','log_ode','foster')]
for (st,meth,levy),nt in itertools.product(combos,['diagonal','scalar','additive','general']):
    if nt=='general' and meth in ('milstein','srk'): continue
    mm={'diagonal':d,'scalar':1}.get(nt,m)
    c=torch.randn(mm, generator=torch.Generator().manual_seed(1))
    ts=torch.tensor([0.,0.13,0.2,0.5]); y0=torch.ones(B,d)
    bmshape=(B,mm+1) if nt=='diagonal' else (B,mm)
    try:
        bm=torchsde.BrownianInterval(0.,0.5,size=bmshape,entropy=3,levy_area_approximation=levy)
        with torch.no_grad(): ys,lq=torchsde.sdeint(SDE(st,nt,c),y0,ts,bm=bm,method=meth,dt=0.05,logqp=True)
        bm2=torchsde.BrownianInterval(0.,0.5,size=bmshape,entropy=3,levy_area_approximation=levy)
        exp_=0.5*(c**2).sum()*(ts[1:]-ts[:-1])
        res='shape %s err %.2e min %.2e'%(tuple(lq.shape),(lq-exp_.unsqueeze(1)).abs().max().item(), lq.min().item())
        if nt!='diagonal':
            with torch.no_grad(): y2=torchsde.sdeint(SDE(st,nt,c),y0,ts,bm=bm2,method=meth,dt=0.05)
            res+=' ydiff %.2e'%(ys-y2).abs().max().item()
        else:
            # same noise: use W from bm2 first d columns
            class Sub:
                def __init__(s,b): s.b=b; s.shape=(B,d); s.levy_area_approximation=b.levy_area_approximation; s.dtype=b.dtype; s.device=b.device
                def __call__(s,ta,tb=None,return_U=False,return_A=False):
                    out=s.b(ta,tb,return_U=return_U,return_A=return_A)
                    if return_U and return_A: return out[0][:,:d],out[1][:,:d],out[2][:,:d,:d]
                    if return_U: return out[0][:,:d],out[1][:,:d]
                    if return_A: return out[0][:,:d],out[1][:,:d,:d]
                    return out[:,:d]
            with torch.no_grad(): y2=torchsde.sdeint(SDE(st,nt,c),y0,ts,bm=Sub(bm2),method=meth,dt=0.05)
            res+=' ydiff %.2e'%(ys-y2).abs().max().item()
    except Exception as e:
        res=type(e).__name__+': '+str(e)[:90]
    print(st,meth,nt,res)
