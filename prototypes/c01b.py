import sys; sys.path.insert(0,'/tmp/scratch/repo')
import torch, torchsde, math, itertools, warnings
warnings.simplefilter('ignore')
torch.set_default_dtype(torch.float64)
# families: each returns (sde, y0, exact(bm,T))
class Arctan(torch.nn.Module):   # y=arctan(pW+tan y0); ito drift -p^2 sin cos^3 ; strat drift 0
    def __init__(s, st, nt, d):
        super().__init__(); s.sde_type=st; s.noise_type=nt; s.p=torch.linspace(0.5,0.9,d)
    def f(s,t,y): return -s.p**2*torch.sin(y)*torch.cos(y)**3 if s.sde_type=='ito' else torch.zeros_like(y)
    def g(s,t,y):
        g=s.p*torch.cos(y)**2
        if s.noise_type=='diagonal': return g
        if s.noise_type=='scalar': return g.unsqueeze(-1)
        if s.noise_type=='general': return torch.diag_embed(g)
    def exact(s,W,y0):
        if s.noise_type=='scalar': W=W.expand(-1,y0.size(1))
        return torch.atan(s.p*W+torch.tan(y0))
class Add(torch.nn.Module):  # R-N ex 3
    def __init__(s, st, nt, d, m):
        super().__init__(); s.sde_type=st; s.noise_type=nt; s.a=torch.linspace(0.3,0.8,d); s.b=torch.linspace(0.9,0.4,d); s.m=m; s.t0=0.
    def f(s,t,y): return s.b/torch.sqrt(1.+t)-y/(2.+2.*t)
    def g(s,t,y): return (s.a*s.b/torch.sqrt(1.+t)).unsqueeze(0).unsqueeze(-1).repeat(y.size(0),1,s.m)
    def exact(s,W,y0,T=1.0): return y0/math.sqrt(1+T)+s.b*(T+s.a*W.sum(1,keepdim=True))/math.sqrt(1+T)
class Comm(torch.nn.Module):  # general commutative: y' = A y dt + sum_k B_k y o dW_k, B_k polynomials of one matrix
    def __init__(s, st, d=2, m=2):
        super().__init__(); s.sde_type=st; s.noise_type='general'
        C=torch.tensor([[0.3,0.4],[0.,0.3]]); s.Bs=[0.8*C, 0.5*C@C+0.2*torch.eye(2)]; s.A=-0.4*torch.eye(2)
    def f(s,t,y):
        out=y@s.A.T
        if s.sde_type=='ito': out=out+0.5*sum(y@(B@B).T for B in s.Bs)
        return out
    def g(s,t,y): return torch.stack([y@B.T for B in s.Bs],dim=-1)
    def exact(s,W,y0,T=1.0):
        return torch.stack([torch.linalg.matrix_exp(s.A*T+sum(B*W[b,k] for k,B in enumerate(s.Bs)))@y0[b] for b in range(W.size(0))])
def run(name, sde, y0, mm, meth, opts=None, levy='none', T=1.0, Bsz=1500):
    bm=torchsde.BrownianInterval(0.,T,size=(Bsz,mm),entropy=7,levy_area_approximation=levy)
    ex=sde.exact(bm(0.,T),y0)
    errs=[]
    for k in range(3,9):
        with torch.no_grad(): ys=torchsde.sdeint(sde,y0,torch.tensor([0.,T]),bm=bm,method=meth,dt=2.0**-k,options=opts)
        errs.append(((ys[-1]-ex)**2).sum(1).mean().sqrt().item())
    import numpy as np
    slope=-np.polyfit(range(3,9),np.log2(errs),1)[0]
    print(f'{name:38s} {meth:16s} {str(opts and "gf"):5s} errs {errs[0]:.1e}->{errs[-1]:.1e} slope {slope:.2f}')
ITO=[('euler',None,'none'),('milstein',None,'none'),('milstein',dict(grad_free=True),'none'),('srk',None,'space-time')]
STR=[('euler_heun',None,'none'),('heun',None,'none'),('midpoint',None,'none'),('milstein',None,'none'),('milstein',dict(grad_free=True),'none'),('reversible_heun',None,'none'),('log_ode',None,'foster')]
Bsz=1500
for st,ms in (('ito',ITO),('stratonovich',STR)):
    for meth,opts,levy in ms:
        for nt in ('diagonal','scalar','general'):
            if nt=='general' and meth in('milstein','srk'): continue
            d=2; mm={'diagonal':d,'scalar':1,'general':d}[nt]
            run(f'arctan {st} {nt}',Arctan(st,nt,d),torch.full((Bsz,d),0.3),mm,meth,opts,levy)
        run(f'additive {st} m=3',Add(st,'additive',2,3),torch.full((Bsz,2),0.5),3,meth,opts,levy)
        if meth not in('milstein','srk'):
            run(f'commutative general {st}',Comm(st),torch.ones(Bsz,2),2,meth,opts,levy)
