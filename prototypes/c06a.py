import torch, torchsde, random
torch.set_default_dtype(torch.float64)
random.seed(0)
bad=0; n=0
for trial in range(60):
    levy=random.choice(['none','space-time','davie','foster']); size=random.choice([(),(3,),(2,3)])
    tol=random.choice([1e-2,1e-3,1e-5]); nd=-int(__import__('math').log10(tol))
    cache=random.choice([1,3,45,None])
    mk=lambda: torchsde.BrownianInterval(0.,1.,size=size,entropy=trial,tol=tol,halfway_tree=True,levy_area_approximation=levy,cache_size=cache)
    a,b=mk(),mk()
    def rq():
        x,y=sorted([round(random.uniform(0,1),nd),round(random.uniform(0,1),nd)])
        return x,y
    for _ in range(random.choice([0,5,40])): a(*rq())
    for _ in range(random.choice([0,5,40])): b(*rq())
    for _ in range(10):
        x,y=rq()
        if x==y: continue
        kw=dict(return_U=levy!='none',return_A=levy in('davie','foster'))
        ra=a(x,y,**kw); rb=b(x,y,**kw)
        ra=ra if isinstance(ra,tuple) else (ra,); rb=rb if isinstance(rb,tuple) else (rb,)
        n+=1
        for u,v in zip(ra,rb):
            if u is None: continue
            if not torch.equal(u,v): bad+=1; print('MISMATCH',trial,levy,size,tol,x,y,(u-v).abs().max().item()); break
print('checked',n,'bad',bad)
