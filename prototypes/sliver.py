import torch
# find (T, n) with n=100 accumulations of dt=T/100 undershooting T (float64 tensor arithmetic like the solver)
hits=[]
for T in [1.0,0.5,0.3,0.7,2.0,3.0,0.1,0.9,1.1,1.3,5.0,10.0,0.2,0.6,1.7]:
    dt=T/100
    t=torch.tensor(0.,dtype=torch.float64); n=0
    end=torch.tensor(T,dtype=torch.float64)
    steps=[]
    while t<end:
        nt=min(t+dt,end); steps.append((nt-t).item()); t=nt; n+=1
    if n==101: hits.append((T,dt,steps[-1]))
print(hits)
