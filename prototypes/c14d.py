import sys; sys.path.insert(0,'/tmp/scratch/repo')
import torch, torchsde, warnings, math, random
from torchsde._core import adaptive_stepping
warnings.simplefilter('ignore')
torch.set_default_dtype(torch.float64)
events=[]; inj={'seq':None,'i':0}
orig_ce=adaptive_stepping.compute_error; orig_us=adaptive_stepping.update_step_size
def ce(y11,y12,rtol,atol,eps=1e-7):
    r=orig_ce(y11,y12,rtol,atol,eps)
    if inj['seq'] is not None:
        r=inj['seq'](inj['i']); inj['i']+=1
    events.append(('err',r)); return r
def us(**kw):
    r=orig_us(**kw); events.append(('upd',kw['prev_step_size'],r[0])); return r
adaptive_stepping.compute_error=ce; adaptive_stepping.update_step_size=us
class Rec:
    def __init__(s,b): s.b=b
    def __call__(s,ta,tb=None,return_U=False,return_A=False):
        events.append(('q',float(ta),float(tb))); return s.b(ta,tb,return_U=return_U,return_A=return_A)
    shape=property(lambda s:s.b.shape); dtype=property(lambda s:s.b.dtype); device=property(lambda s:s.b.device); levy_area_approximation=property(lambda s:s.b.levy_area_approximation)
class SDE(torch.nn.Module):
    noise_type='diagonal'; sde_type='ito'
    def f(s,t,y): return -y+torch.sin(5*t)
    def g(s,t,y): return 0.5*torch.cos(y)+0.7
random.seed(0)
seqs={'always>1':lambda i:50.0,'alternate':lambda i:(30.0 if i%2 else 0.01),'heavy':lambda i:math.exp(random.gauss(0,3)),'tiny':lambda i:1e-7,'exactly1':lambda i:1.0,'inf-ish':lambda i:1e30}
for name,seq in seqs.items():
  for dt,dt_min,T in ((0.1,1e-3,1.0),(0.05,0.05,0.5),(0.3,1e-2,2.0)):
    events.clear(); inj.update(seq=seq,i=0)
    bm=Rec(torchsde.BrownianInterval(0.,T,size=(2,3),entropy=3))
    with torch.no_grad(): ys=torchsde.sdeint(SDE(),torch.ones(2,3),torch.tensor([0.,T/3,T]),bm=bm,method='milstein',dt=dt,adaptive=True,rtol=1e-3,atol=1e-3,dt_min=dt_min)
    i=0; trials=[]
    while i<len(events):
        q=events[i:i+3]; e=events[i+3]; u=events[i+4]; i+=5
        assert q[0][1]==q[1][1] and q[1][2]==q[2][1] and q[2][2]==q[0][2]
        trials.append(dict(t0=q[0][1],t1=q[0][2],err=e[1],prev=u[1],new=u[2]))
    viol=[]
    for k,tr in enumerate(trials):
        nxt=trials[k+1]['t0'] if k+1<len(trials) else T
        accepted=(nxt==tr['t1']); clamped=tr['new']<dt_min
        if tr['err']>1 and accepted and not clamped and not (max(tr['new'],dt_min)<=dt_min): viol.append(('accepted with err>1',k))
        if tr['err']>1 and not accepted and k+1<len(trials) and not (trials[k+1]['t1']-trials[k+1]['t0'] < tr['t1']-tr['t0']): viol.append(('retry not smaller',k))
        if tr['err']<=1 and not accepted: viol.append(('rejected with err<=1',k))
        L=tr['t1']-tr['t0']
        if L<dt_min*(1-1e-9)-1e-12 and tr['t1']!=T and k>0: viol.append(('shorter than dt_min',k,L))
    bound=3*T/dt_min+100
    print(f'{name:10s} dt={dt} dt_min={dt_min} trials {len(trials):5d} (bound {bound:.0f}) end {trials[-1]["t1"]} viol {viol[:3]}')
