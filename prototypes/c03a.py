import torch, torchsde, random, itertools
torch.set_default_dtype(torch.float64)
random.seed(0)
worst = {}
def upd(k, v):
    worst[k] = max(worst.get(k,0.), float(v))
for trial in range(300):
    levy = random.choice(['none','space-time','davie','foster'])
    size = random.choice([(), (3,), (2,3)])
    cache = random.choice([0,1,2,5,45,None])
    halfway = random.random()<0.25
    tol = random.choice([1e-3,1e-6]) if halfway else random.choice([0.,0.,1e-3])
    dt = None if halfway or random.random()<0.5 else random.choice([0.3,0.05,0.011])
    t0 = random.choice([0., -1.5, 2.0]); t1 = t0 + random.choice([1.0, 0.37, 5.0])
    try:
        bm = torchsde.BrownianInterval(t0,t1,size=size,levy_area_approximation=levy,cache_size=cache,halfway_tree=halfway,tol=tol,dt=dt,entropy=trial)
    except (RecursionError,AttributeError) as e:
        upd(f'ctor_{type(e).__name__} cache={cache} tol={tol} dt={dt} len={t1-t0}',1); continue
    def rt():
        x = random.uniform(t0,t1)
        if tol>0: x = round(x, 3 if tol==1e-3 else 6)
        return min(max(x,t0),t1)
    nq = random.choice([0,3,30,150])
    try:
        for _ in range(nq):
            a,b = sorted([rt(),rt()]); bm(a,b)
        for _ in range(10):
            s,u,t = sorted([rt(),rt(),rt()])
            if levy=='none':
                W=bm(s,t); W1=bm(s,u); W2=bm(u,t)
                upd('W', (W-W1-W2).abs().max())
            else:
                W,U=bm(s,t,return_U=True); W1,U1=bm(s,u,return_U=True); W2,U2=bm(u,t,return_U=True)
                upd('W', (W-W1-W2).abs().max())
                upd('U', (U-U1-U2-(t-u)*W1).abs().max())
            z = bm(s,s); upd('zero', z.abs().max())
    except (RecursionError,AttributeError) as e:
        upd(f'{type(e).__name__} cache={cache} halfway={halfway} tol={tol} dt={dt}',1)
print(worst)
