import sys; sys.path.insert(0,'/tmp/scratch/repo')
import torch, torchsde, warnings, itertools, random
from torchsde._core import methods
warnings.simplefilter('ignore')
B,d=3,2
class SDE(torch.nn.Module):
    noise_type='diagonal'
    def __init__(s,st): super().__init__(); s.sde_type=st
    def f(s,t,y): return -0.3*y+torch.cos(t)
    def g(s,t,y): return 0.3*torch.sin(y)+0.5
log=[]
def wrap(cls):
    for name in ('step','additive_step','diagonal_or_scalar_step'):
        if name in cls.__dict__:
            orig=cls.__dict__[name]
            def w(self,t0,t1,y0,extra0,_o=orig):
                out=_o(self,t0,t1,y0,extra0); log.append((t0.clone() if torch.is_tensor(t0) else t0,t1.clone(),y0.clone(),out[0].clone())); return out
            setattr(cls,name,w)
for c in (methods.Euler,methods.SRK,methods.Heun,methods.MilsteinIto.__mro__[1],methods.Midpoint,methods.ReversibleHeun): wrap(c)
random.seed(0)
worst=0; cnt=0
for trial in range(200):
    tdt=random.choice([torch.float32,torch.float64]); ydt=random.choice([torch.float32,torch.float64])
    st,meth,levy=random.choice([('ito','euler','none'),('ito','srk','space-time'),('ito','milstein','none'),('stratonovich','heun','none'),('stratonovich','midpoint','none'),('stratonovich','reversible_heun','none')])
    t0=random.choice([0.,-1.,2.5]); T=random.choice([0.37,1.0,2.0]); dt=random.choice([0.05,0.1,0.3,0.0625,3.0])
    n=random.choice([2,3,6]); pts=sorted(random.uniform(t0,t0+T) for _ in range(n-2)); tsl=[t0]+pts+[t0+T]
    if random.random()<0.3: tsl=[t0]+[t0+dt*k for k in range(1,int(T/dt)+1) if t0+dt*k<t0+T][:3]+[t0+T]
    aslist=random.random()<0.3
    ts=tsl if aslist else torch.tensor(tsl,dtype=tdt)
    y0=torch.randn(B,d,dtype=ydt)
    mk=lambda: torchsde.BrownianInterval(t0,t0+T,size=(B,d),dtype=ydt,entropy=trial,levy_area_approximation=levy)
    log.clear()
    with torch.no_grad(): ys=torchsde.sdeint(SDE(st),y0,ts,bm=mk(),method=meth,dt=dt)
    steps=list(log)
    tst=torch.tensor(tsl,dtype=ydt) if aslist else ts
    assert ys.shape==(len(tsl),B,d) and ys.dtype==ydt, (ys.shape,ys.dtype)
    assert torch.equal(ys[0],y0)
    # grid model
    cur=tst[0]; k=0
    for (a,b,ya,yb) in steps:
        nxt=min(cur+dt,tst[-1]); assert a==cur and b==nxt,(a,b,cur,nxt); cur=nxt
    assert cur==tst[-1]
    # interpolation
    for i,t in enumerate(tst[1:],1):
        seg=[s for s in steps if s[0]<t<=s[1]]
        s=seg[0]
        ref=(s[1]-t)/(s[1]-s[0])*s[2]+(t-s[0])/(s[1]-s[0])*s[3]
        err=(ys[i]-ref).abs().max().item(); worst=max(worst,err)
        if t==s[1]: assert torch.equal(ys[i],s[3]) or err<1e-6,(err)
    # invariance: drop interior points
    if len(tsl)>2:
        keep=[0]+sorted(random.sample(range(1,len(tsl)-1),k=max(0,len(tsl)-3)))+[len(tsl)-1]
        ts2=[tsl[i] for i in keep]; ts2=ts2 if aslist else torch.tensor(ts2,dtype=tdt)
        with torch.no_grad(): ys2=torchsde.sdeint(SDE(st),y0,ts2,bm=mk(),method=meth,dt=dt)
        assert torch.equal(ys2,ys[keep]),(ys2-ys[keep]).abs().max()
    cnt+=1
print('cases',cnt,'worst interp err',worst)
