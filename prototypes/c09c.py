import sys; sys.path.insert(0,'/tmp/scratch/repo')
import torch, torchsde, warnings
warnings.simplefilter('ignore')
torch.set_default_dtype(torch.float64)
B,d=3,2
class SDE(torch.nn.Module):
    noise_type='diagonal'; sde_type='ito'
    def __init__(s):
        super().__init__(); s.a=torch.nn.Parameter(torch.tensor(0.3)); s.b=torch.nn.Parameter(torch.tensor(0.5)); s.c=torch.nn.Parameter(torch.tensor(0.7)); s.frozen=torch.nn.Parameter(torch.tensor(0.2),requires_grad=False); s.unused=torch.nn.Parameter(torch.tensor(1.0))
    def f(s,t,y): return -s.a*y+s.frozen
    def g(s,t,y): return s.b*torch.sin(y)+s.c
for meth,am in (('srk',None),('euler','euler'),('milstein','milstein')):
    for sel in ('all','a,c','none','b'):
        sde=SDE(); y0=torch.ones(B,d,requires_grad=(sel!='b'))
        ap={'all':None,'a,c':[sde.a,sde.c],'none':(),'b':[sde.b]}[sel]
        ys=torchsde.sdeint_adjoint(sde,y0,torch.tensor([0.,0.3,0.5]),dt=0.05,method=meth,adjoint_method=am,adjoint_params=ap,bm=torchsde.BrownianInterval(0.,.5,size=(B,d),entropy=1,levy_area_approximation='space-time'))
        if not ys.requires_grad: print(meth,sel,'output does not require grad'); continue
        ys.sum().backward()
        print(meth,sel,{n:(None if p.grad is None else round(p.grad.item(),4)) for n,p in sde.named_parameters()},'y0', None if y0.grad is None else round(y0.grad.sum().item(),4))
