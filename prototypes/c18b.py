import sys; sys.path.insert(0,'/tmp/scratch/repo')
import torch, torchsde, itertools, warnings
warnings.simplefilter('ignore')
torch.set_default_dtype(torch.float64)
B,d,m=5,3,2
class SDE(torch.nn.Module):
    def __init__(s, st, nt):
        super().__init__(); s.sde_type=st; s.noise_type=nt
        g=torch.Generator().manual_seed(5); s.A=0.4*torch.randn(d,d,generator=g); s.G=0.3*torch.randn(d,m,generator=g)+torch.eye(d,m)
    def f(s,t,y): return -0.3*y + torch.tanh(y@s.A)*torch.cos(t)
    def h(s,t,y): return -0.1*y+0.2*torch.sin(y)
    def g(s,t,y):
        nt=s.noise_type
        if nt=='diagonal': return 0.3*torch.sin(y)+0.5+0.1*t
        if nt=='scalar': return (0.3*torch.tanh(y@s.A)+0.5+0.2*t).unsqueeze(-1)
        if nt=='additive': return (s.G*(1+t)).expand(y.size(0),d,m)
        return (torch.tanh(y@s.A).unsqueeze(-1)*0.2+s.G)
class Aug(torch.nn.Module):   # hand augmentation, independent of SDELogqp
    def __init__(s,base): super().__init__(); s.b=base; s.sde_type=base.sde_type; s.noise_type=base.noise_type
    def f(s,t,y):
        x=y[:,:-1]; f,g,h=s.b.f(t,x),s.b.g(t,x),s.b.h(t,x)
        if s.noise_type=='diagonal': u=(f-h)/g
        else: u=torch.linalg.lstsq(g,(f-h).unsqueeze(-1)).solution.squeeze(-1)
        return torch.cat([f,0.5*(u**2).sum(1,keepdim=True)],1)
    def g(s,t,y):
        x=y[:,:-1]; g=s.b.g(t,x)
        if s.noise_type=='diagonal': return torch.cat([g,torch.zeros(x.size(0),1)],1)
        return torch.cat([g,torch.zeros(x.size(0),1,g.size(-1))],1)
combos=[('ito','euler','none'),('ito','milstein','none'),('ito','srk','space-time'),('stratonovich','heun','none'),('stratonovich','midpoint','none'),('stratonovich','reversible_heun','none'),('stratonovich','log_ode','foster')]
for (st,meth,levy),nt in itertools.product(combos,['diagonal','scalar','additive','general']):
    if nt=='general' and meth in('milstein','srk'): continue
    mm={'diagonal':d+1,'scalar':1}.get(nt,m)
    ts=torch.tensor([0.,0.13,0.2,0.5]); y0=torch.ones(B,d)
    mk=lambda: torchsde.BrownianInterval(0.,0.5,size=(B,mm),entropy=3,levy_area_approximation=levy)
    with torch.no_grad():
        ys,lq=torchsde.sdeint(SDE(st,nt),y0,ts,bm=mk(),method=meth,dt=0.05,logqp=True)
        ya=torchsde.sdeint(Aug(SDE(st,nt)),torch.cat([y0,torch.zeros(B,1)],1),ts,bm=mk(),method=meth,dt=0.05)
    ref=ya[1:,:,-1]-ya[:-1,:,-1]
    # additivity under refinement
    ts2=torch.tensor([0.,0.05,0.13,0.15,0.2,0.35,0.5])
    with torch.no_grad(): _,lq2=torchsde.sdeint(SDE(st,nt),y0,ts2,bm=mk(),method=meth,dt=0.05,logqp=True)
    agg=torch.stack([lq2[0:2].sum(0),lq2[2:4].sum(0),lq2[4:6].sum(0)])
    print(st,meth,nt,'vs hand-augmented %.1e'%(lq-ref).abs().max().item(),'state %.1e'%(ys-ya[:,:,:-1]).abs().max().item(),'additivity %.1e'%(agg-lq).abs().max().item(),'min %.2e'%lq.min().item())
