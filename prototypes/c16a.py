import torch, torchsde, itertools, warnings
from torchsde._core.base_sde import ForwardSDE
warnings.simplefilter('ignore')
torch.set_default_dtype(torch.float64)
B,d,m=3,3,2
class G(torch.nn.Module):
    noise_type='general'; sde_type='stratonovich'
    def __init__(s): super().__init__(); s.A=torch.randn(d,d*m)
    def f(s,t,y): return -y
    def g(s,t,y): return torch.tanh(y@s.A+t).reshape(-1,d,m)
torch.manual_seed(0)
sde=G(); y=torch.randn(B,d); t=torch.tensor(0.3)
a=torch.randn(B,m,m); a=a-a.transpose(1,2)
f1=ForwardSDE(sde); f2=ForwardSDE(sde,fast_dg_ga_jvp_column_sum=True)
v1=f1.dg_ga_jvp_column_sum(t,y,a); v2=f2.dg_ga_jvp_column_sum(t,y,a)
# explicit
ref=torch.zeros(B,d)
for b in range(B):
    J=torch.autograd.functional.jacobian(lambda yy: sde.g(t,yy.unsqueeze(0))[0], y[b])  # (d,m,d) : dg_{i,l}/dy_j
    g=sde.g(t,y[b:b+1])[0]
    ref[b]=torch.einsum('ilj,jk,kl->i',J,g,a[b])
print('v1 err',(v1-ref).abs().max().item(),'v2 err',(v2-ref).abs().max().item())
# gdg for scalar
class S(torch.nn.Module):
    noise_type='scalar'; sde_type='ito'
    def __init__(s): super().__init__(); s.A=torch.randn(d,d)
    def f(s,t,y): return -y
    def g(s,t,y): return torch.tanh(y@s.A+t).unsqueeze(-1)
s=S(); fs=ForwardSDE(s); v1_=torch.randn(B,1); v2_=torch.randn(B,1)
gp,gdg=fs.g_prod_and_gdg_prod(t,y,v1_,v2_)
ref=torch.zeros(B,d)
for b in range(B):
    J=torch.autograd.functional.jacobian(lambda yy: s.g(t,yy.unsqueeze(0))[0,:,0], y[b]) # (d,d) dg_i/dy_j
    g=s.g(t,y[b:b+1])[0,:,0]
    ref[b]=(J@g)*v2_[b,0]
print('scalar gdg err (jvp def)',(gdg-ref).abs().max().item())
