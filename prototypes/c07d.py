import torch, torchsde, sys, time, warnings, traceback, math
torch.set_default_dtype(torch.float64)
def trial(name, fn):
    t=time.time()
    try:
        r=fn(); print(name, 'OK', r if r is not None else '', round(time.time()-t,2))
    except BaseException as e:
        tb=traceback.extract_tb(e.__traceback__)
        print(name, 'FAIL', type(e).__name__, str(e)[:150], 'at', tb[-1].name, tb[-1].lineno, round(time.time()-t,2))
# halfway tree: queries shorter than tol
def h1():
    bm = torchsde.BrownianInterval(0.,1.,size=(2,), tol=1e-3, halfway_tree=True, entropy=1)
    return bm(0.5, 0.5+1e-5)
trial('halfway sub-tol query at 0.5', h1)
def h2():
    bm = torchsde.BrownianInterval(0.,1.,size=(2,), tol=1e-3, halfway_tree=True, entropy=1)
    return bm(0.3001, 0.3002)
trial('halfway sub-tol query at .3001', h2)
def h3():
    bm = torchsde.BrownianInterval(0.,1.,size=(2,), tol=1e-3, halfway_tree=True, entropy=1)
    return bm(1-1e-9, 1.0)
trial('halfway sub-tol at end', h3)
def h4():
    bm = torchsde.BrownianInterval(0.,1.,size=(2,), tol=1e-3, halfway_tree=False, entropy=1)
    return bm(1-1e-9, 1.0), bm(0.3001,0.3002), bm(0., 1e-9), bm(0.2,0.7)
trial('non-halfway tol>0 sub-tol', h4)
def h5():
    bm = torchsde.BrownianInterval(0.,1.,size=(2,), tol=1e-3, halfway_tree=True, entropy=1)
    return bm(0., 1e-9)
trial('halfway sub-tol at start', h5)
def h6():
    bm = torchsde.BrownianInterval(0.,1.,size=(2,), tol=1e-3, halfway_tree=True, entropy=1)
    bm(0.2,0.7)
    return bm(0.2, 0.2+1e-9)
trial('halfway sub-tol at existing boundary', h6)
# BrownianTree in sdeint
class S(torch.nn.Module):
    noise_type='diagonal'; sde_type='ito'
    def f(self,t,y): return -y
    def g(self,t,y): return 0.1*y
def bt(dt, t1=1.0, dtype=torch.float64):
    def f():
        bm = torchsde.BrownianTree(t0=0., w0=torch.zeros(1,1,dtype=dtype), t1=t1, entropy=3)
        with torch.no_grad():
            ts = torch.tensor([0., t1], dtype=dtype)
            ys = torchsde.sdeint(S(), torch.ones(1,1,dtype=dtype), ts, dt=dt, bm=bm, method='euler')
        return ys[-1].item()
    return f
for dt in (0.1, 0.01, 0.05, 0.03, 1/3, 0.007, 0.3):
    trial(f'sdeint BrownianTree dt={dt}', bt(dt))
for dt in (0.1, 0.01, 0.05, 0.03):
    trial(f'sdeint BrownianTree f32 dt={dt}', bt(dt, dtype=torch.float32))
