import numpy as np
rng = np.random.default_rng(0)
N, n, h = 400000, 128, 1.0
dt = h/n
A = np.zeros(N); W1=np.zeros(N); W2=np.zeros(N); I1=np.zeros(N); I2=np.zeros(N)
# exact simulation on grid of int W ds needs sub-grid; use fine grid + trapezoid+bridge correction: approximate
for k in range(n):
    d1 = rng.standard_normal(N)*np.sqrt(dt); d2 = rng.standard_normal(N)*np.sqrt(dt)
    # Levy area increment: A += 0.5*(W1*d2 - W2*d1) + local area (ignored: variance dt^2/4 per step => total h^2/(4n))
    A += 0.5*(W1*d2 - W2*d1)
    # exact-in-law local levy area skip; integral of W: trapezoid (error var ~ dt^3/12 per step)
    I1 += (W1 + 0.5*d1)*dt; I2 += (W2+0.5*d2)*dt
    W1 += d1; W2 += d2
H1 = I1/h - 0.5*W1; H2 = I2/h - 0.5*W2
b = A - (H1*W2 - W1*H2)
print('Var W', W1.var(), 'Var H', H1.var(), '(1/12=%.4f)'%(1/12), 'Var A', A.var(), 'Var b', b.var(), '(1/12)')
s = H1**2+H2**2
# regress b^2 on s
X = np.stack([np.ones(N), s],1)
coef = np.linalg.lstsq(X, b**2, rcond=None)[0]
print('b^2 ~ c0 + c1*s: ', coef, 'expected', 1/20, 1/5, ' code would give', 1/50, 1/5, ' (and davie code: 1/6 vs true 1/12)')
