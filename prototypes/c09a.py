import torch, torchsde, itertools, warnings, math
warnings.simplefilter('ignore')
torch.set_default_dtype(torch.float64)
B=64
class GBM(torch.nn.Module):
    def __init__(s, sde_type, noise_type):
        super().__init__(); s.sde_type=sde_type; s.noise_type=noise_type
        s.mu=torch.nn.Parameter(torch.tensor(0.4)); s.sigma=torch.nn.Parameter(torch.tensor(0.5))
    def f(s,t,y):
        return s.mu*y if s.sde_type=='ito' else (s.mu-0.5*s.sigma**2)*y
    def g(s,t,y):
        if s.noise_type=='diagonal': return s.sigma*y
        return (s.sigma*y).unsqueeze(-1)   # scalar / general with m=1, d=1
T=1.0
for st,nt,meth,am,levy in [('ito','diagonal','milstein','milstein','none'),('ito','diagonal','srk','milstein','space-time'),('ito','diagonal','euler','euler','none'),('ito','scalar','milstein','euler','none'),('ito','general','euler','euler','none'),
    ('stratonovich','diagonal','midpoint','midpoint','none'),('stratonovich','diagonal','milstein','milstein','none'),('stratonovich','scalar','heun','heun','none'),('stratonovich','general','midpoint','euler_heun','none'),('stratonovich','general','reversible_heun','adjoint_reversible_heun','none')]:
    errs=[]
    for k in (4,5,6,7,8):
        dt=2.**-k
        sde=GBM(st,nt); y0=torch.full((B,1),1.2,requires_grad=True)
        bm=torchsde.BrownianInterval(0.,T,size=(B,1),entropy=11,levy_area_approximation=levy)
        ys=torchsde.sdeint_adjoint(sde,y0,torch.tensor([0.,T]),bm=bm,method=meth,adjoint_method=am,dt=dt)
        ys[-1].sum().backward()
        W=bm(0.,T); yT=1.2*torch.exp((0.4-0.125)*T+0.5*W)
        ex=torch.stack([ (T*yT).sum(), ((-0.5*T+W)*yT).sum()]); exy=yT/1.2
        g=torch.stack([sde.mu.grad, sde.sigma.grad])
        errs.append( math.sqrt((((g-ex)/B)**2).sum().item() + ((y0.grad-exy)**2).mean().item()))
    print(st,nt,meth,am,['%.2e'%e for e in errs], ['%.2f'%math.log2(errs[i]/errs[i+1]) for i in range(len(errs)-1)])
