import torch, torchsde, itertools, warnings, traceback
warnings.simplefilter('ignore')
torch.set_default_dtype(torch.float64)
B,d,m=3,2,2
class SDE(torch.nn.Module):
    def __init__(s, sde_type, noise_type):
        super().__init__(); s.sde_type=sde_type; s.noise_type=noise_type
        s.p=torch.nn.Parameter(torch.tensor(0.3)); s.A=torch.nn.Parameter(0.2*torch.randn(d,d)); s.G=torch.nn.Parameter(0.2*torch.randn(d,m))
    def f(s,t,y): return -s.p*y + torch.tanh(y@s.A)
    def g(s,t,y):
        nt=s.noise_type
        if nt=='diagonal': return 0.3*torch.sin(y)*s.p+0.2
        if nt=='scalar': return (0.3*torch.tanh(y@s.A)+0.2).unsqueeze(-1)
        if nt=='additive': return (s.G*(1+t)).expand(y.size(0),d,m)
        return (torch.tanh(y).unsqueeze(-1)*s.G+0.1)
METHODS=['euler','milstein','srk','midpoint','reversible_heun','adjoint_reversible_heun','heun','log_ode','euler_heun']
rows=[]
for st,nt,meth,am in itertools.product(['ito','stratonovich'],['diagonal','scalar','additive','general'],['euler','milstein','srk','midpoint','heun','reversible_heun','euler_heun','log_ode'],[None]+METHODS):
    # forward validity
    torch.manual_seed(0)
    sde=SDE(st,nt)
    mm={'diagonal':d,'scalar':1}.get(nt,m)
    levy={'srk':'space-time','log_ode':'foster'}.get(meth,'none')
    bm=torchsde.BrownianInterval(0.,0.5,size=(B,mm),entropy=1,levy_area_approximation=levy)
    y0=torch.ones(B,d,requires_grad=True)
    ts=torch.tensor([0.,0.25,0.5])
    fwd='ok'
    try:
        ys=torchsde.sdeint_adjoint(sde,y0,ts,bm=bm,method=meth,adjoint_method=am,dt=0.05)
    except Exception as e:
        fwd=type(e).__name__
    bwd='-'
    if fwd=='ok':
        try:
            ys.pow(2).sum().backward(); 
            gn=y0.grad
            # reference
            y1=y0.detach().clone().requires_grad_(True); sde2=SDE(st,nt); sde2.load_state_dict(sde.state_dict())
            yr=torchsde.sdeint(sde2,y1,ts,bm=bm,method=meth,dt=0.05); yr.pow(2).sum().backward()
            rel=((gn-y1.grad).norm()/y1.grad.norm()).item()
            bwd='ok rel=%.1e'%rel
        except Exception as e:
            bwd=type(e).__name__+':'+str(e)[:40]
    rows.append((st,nt,meth,am,fwd,bwd))
import collections
for r in rows:
    if r[4]=='ok': print(*r)
print(collections.Counter(r[4] for r in rows))
