import torch, torchsde, time, resource, signal, sys
torch.set_default_dtype(torch.float64)
class S(torch.nn.Module):
    noise_type='diagonal'; sde_type='ito'
    def f(self,t,y): return -y
    def g(self,t,y): return 0.1*y
def handler(sig,frm): 
    print('TIMEOUT after 20s; maxrss MB', resource.getrusage(resource.RUSAGE_SELF).ru_maxrss/1024); sys.exit(3)
signal.signal(signal.SIGALRM, handler); signal.alarm(20)
t=time.time()
with torch.no_grad():
    ys=torchsde.sdeint(S(), torch.ones(1,1), torch.tensor([0.,10.]), dt=0.1, method='euler')
print('done', time.time()-t, ys[-1])
