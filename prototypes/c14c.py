import sys; sys.path.insert(0,'/tmp/scratch/repo')
import torch, torchsde, math, warnings
warnings.simplefilter('ignore')
torch.set_default_dtype(torch.float64)
class Arctan(torch.nn.Module):
    def __init__(s, st, nt, d):
        super().__init__(); s.sde_type=st; s.noise_type=nt; s.p=torch.linspace(0.5,0.9,d)
    def f(s,t,y): return -s.p**2*torch.sin(y)*torch.cos(y)**3 if s.sde_type=='ito' else torch.zeros_like(y)
    def g(s,t,y):
        g=s.p*torch.cos(y)**2
        return g if s.noise_type=='diagonal' else g.unsqueeze(-1)
    def exact(s,W,y0):
        if s.noise_type=='scalar': W=W.expand(-1,y0.size(1))
        return torch.atan(s.p*W+torch.tan(y0))
Bsz=64
for st,meth,levy in (('ito','srk','space-time'),('ito','milstein','none'),('ito','euler','none'),('stratonovich','heun','none'),('stratonovich','midpoint','none'),('stratonovich','reversible_heun','none'),('stratonovich','euler_heun','none'),('stratonovich','log_ode','foster')):
    for nt in ('diagonal','scalar'):
        d=2; mm=d if nt=='diagonal' else 1
        sde=Arctan(st,nt,d); y0=torch.full((Bsz,d),0.3)
        errs=[]
        for tol in (1e-1,1e-2,1e-3,1e-4):
            # per-path adaptivity: error norm is over the whole batch; keep batch
            bm=torchsde.BrownianInterval(0.,1.,size=(Bsz,mm),entropy=7,levy_area_approximation=levy)
            with torch.no_grad(): ys=torchsde.sdeint(sde,y0,torch.tensor([0.,1.]),bm=bm,method=meth,dt=0.1,adaptive=True,rtol=tol,atol=tol,dt_min=1e-6)
            errs.append(((ys[-1]-sde.exact(bm(0.,1.),y0))**2).sum(1).mean().sqrt().item())
        print(st,meth,nt,['%.1e'%e for e in errs])
