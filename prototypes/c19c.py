import sys; sys.path.insert(0,'/tmp/scratch/repo')
import torch, torchsde, itertools, warnings
warnings.simplefilter('ignore')
B,d,m=2,2,2
class SDE(torch.nn.Module):
    def __init__(s, st, nt): super().__init__(); s.sde_type=st; s.noise_type=nt
    def f(s,t,y): return -y
    def h(s,t,y): return -0.5*y
    def g(s,t,y):
        nt=s.noise_type
        if nt=='diagonal': return 0.3*torch.sin(y)+0.5
        if nt=='scalar': return (0.3*torch.tanh(y)+0.5).unsqueeze(-1)
        return torch.ones(y.size(0),d,m)*0.3+ (0 if nt=='additive' else 0.1*y.unsqueeze(-1))
METHODS=['euler','milstein','srk','midpoint','reversible_heun','adjoint_reversible_heun','heun','log_ode','euler_heun','bogus',None]
ITO={'euler','milstein','srk'}; STR={'euler_heun','heun','midpoint','milstein','reversible_heun','log_ode'}
class Rec:
    def __init__(s,b): s.b=b; s.n=0
    def __call__(s,*a,**k): s.n+=1; return s.b(*a,**k)
    shape=property(lambda s:s.b.shape); dtype=property(lambda s:s.b.dtype); device=property(lambda s:s.b.device); levy_area_approximation=property(lambda s:s.b.levy_area_approximation)
mism=0; n=0
for st,nt,meth,levy,adaptive,logqp,gf in itertools.product(['ito','stratonovich'],['diagonal','scalar','additive','general'],METHODS,[None,'none','space-time','davie','foster'],[False,True],[False,True],[False,True]):
    if gf and meth!='milstein': continue
    eff = meth if meth is not None else ({'ito':{'general':'euler'}.get(nt,'srk'),'stratonovich':'midpoint'}[st])
    ok = eff in (ITO if st=='ito' else STR)
    if eff in ('milstein','srk') and nt=='general': ok=False
    levy_eff = levy if levy is not None else {'srk':'space-time','log_ode':'foster'}.get(eff,'none')
    if eff=='srk' and levy_eff=='none': ok=False
    if eff=='log_ode' and levy_eff in('none','space-time'): ok=False
    mm={'diagonal':d+(1 if logqp else 0),'scalar':1}.get(nt,m)
    bm=None if levy is None else Rec(torchsde.BrownianInterval(0.,0.3,size=(B,mm),levy_area_approximation=levy,entropy=1))
    try:
        with torch.no_grad(): out=torchsde.sdeint(SDE(st,nt),torch.ones(B,d),torch.tensor([0.,0.1,0.3]),bm=bm,method=meth,dt=0.1,adaptive=adaptive,logqp=logqp,options=dict(grad_free=True) if gf else None)
        got='ok'
    except ValueError: got='ValueError'
    except Exception as e: got=type(e).__name__
    n+=1
    if (got=='ok')!=ok or (got not in('ok','ValueError')) or (got=='ValueError' and bm is not None and bm.n>0):
        mism+=1; print('MISMATCH',st,nt,meth,levy,adaptive,logqp,gf,'expected ok' if ok else 'expected ValueError','got',got, 'bm queries', None if bm is None else bm.n)
print('combos',n,'mismatches',mism)
