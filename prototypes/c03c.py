import sys; sys.path.insert(0,'/tmp/scratch/repo')
import torch, torchsde, random, math
from torchsde._brownian import brownian_interval as bi
torch.set_default_dtype(torch.float64)
random.seed(0)
captured=[]
orig_loc=bi._Interval._loc
def loc(self,ta,tb):
    out=orig_loc(self,ta,tb); captured.append([(iv._start,iv._end) for iv in out]); return out
bi._Interval._loc=loc
evict=[0]
orig_set=bi._LRUDict.__setitem__
def lset(self,k,v):
    full = (k not in self) and len(self)>=self._max_size
    orig_set(self,k,v)
    if full: evict[0]+=1
    assert len(self)<=self._max_size
bi._LRUDict.__setitem__=lset
stats=dict(multi=0,maxpieces=0,cases=0,worstA=0,worstW=0,worstU=0,anti=0)
for trial in range(150):
    levy=random.choice(['davie','foster']); size=random.choice([(2,3),(1,2),(3,4)])
    cache=random.choice([0,1,2,5,45,None]); halfway=random.random()<0.3
    tol=random.choice([1e-3,1e-5]) if halfway else random.choice([0.,0.,1e-3])
    dtype=random.choice([torch.float64,torch.float64,torch.float32])
    t0=random.choice([0.,-1.5,2.0]); t1=t0+random.choice([1.,0.37,5.])
    kw={} if halfway else dict(dt=random.choice([None,None,(t1-t0)/7,(t1-t0)/60]))
    bm=torchsde.BrownianInterval(t0,t1,size=size,dtype=dtype,levy_area_approximation=levy,cache_size=cache,halfway_tree=halfway,tol=tol,entropy=trial,**kw)
    nd=3 if tol==1e-3 else 5
    def rt():
        x=random.uniform(t0,t1)
        if tol>0: x=round(x,nd)
        return min(max(x,t0),t1)
    for _ in range(random.choice([0,5,40,130])):
        a,b=sorted([rt(),rt()]); bm(a,b)
    atol=1e-9 if dtype==torch.float64 else 2e-4
    for _ in range(8):
        a,b=sorted([rt(),rt()])
        if a==b: continue
        captured.clear()
        W,U,A=bm(a,b,return_U=True,return_A=True)
        pieces=list(captured[-1]) if captured else []
        # the query's own _loc is the last captured before any _create_dependency_tree-internal ones; take the one spanning a..b
        pieces=[p for p in captured if abs(p[0][0]-bm._round(a))<1e-12 and abs(p[-1][1]-bm._round(b))<1e-12][-1]
        stats['cases']+=1
        stats['anti']=max(stats['anti'],(A+A.transpose(-1,-2)).abs().max().item())
        if len(pieces)>1:
            stats['multi']+=1; stats['maxpieces']=max(stats['maxpieces'],len(pieces))
            Wc=None
            for (s,e) in pieces:
                Wi,Ui,Ai=bm(s,e,return_U=True,return_A=True)
                if Wc is None: Wc,Ac,Uc,end=Wi,Ai,Ui,e
                else:
                    Ac=Ac+Ai+0.5*(Wc.unsqueeze(-1)*Wi.unsqueeze(-2)-Wi.unsqueeze(-1)*Wc.unsqueeze(-2))
                    Uc=Uc+Ui+(e-s)*Wc; Wc=Wc+Wi
            sc=1+A.abs().max().item()
            stats['worstA']=max(stats['worstA'],(A-Ac).abs().max().item()/sc/ (1 if dtype==torch.float64 else 1e5))
            stats['worstW']=max(stats['worstW'],(W-Wc).abs().max().item()/(1 if dtype==torch.float64 else 1e5))
            stats['worstU']=max(stats['worstU'],(U-Uc).abs().max().item()/(1 if dtype==torch.float64 else 1e5))
print(stats,'evictions',evict[0])
